// Package seqx is an explicit-state breadth-first search over operation
// histories of the real API.  A state is the real object reached by replaying a
// history on a fresh instance; successors are computed by replay + one more
// operation in worker subprocesses; deduplication on a canonical state key is
// global (done by the coordinator).
package seqx

import (
	"bufio"
	"encoding/json"
	"fmt"
	"io"
	"os"
	"os/exec"
	"runtime"
	"runtime/debug"
	"strconv"
	"strings"
	"sync"
	"time"

	"verif/harness/internal/rep"
)

// Inst is one live instance of the system under test together with its
// reference model.
type Inst interface {
	// Enabled says whether alphabet entry op may be applied in the current state.
	Enabled(op int) bool
	// Apply performs the operation on the implementation and on the model and
	// compares them; it returns a short outcome label and the violations of
	// this step.
	Apply(op int) (outcome string, viol []rep.Violation)
	// Key is the canonical state key: everything later operations and the oracle can observe.
	Key() string
	// Deep runs the expensive check (save, re-read, package invariant) on the current state.
	Deep() []rep.Violation
	// Nontrivial says whether the last step exercised the mechanism.
	Nontrivial() bool
}

// Spec describes a search.
type Spec struct {
	Name   string
	Ops    []string // alphabet: names, simplest first
	New    func(args json.RawMessage) Inst
	NoDeep bool
}

var specs = map[string]*Spec{}

func Register(s *Spec) { specs[s.Name] = s }

type request struct {
	Kind string `json:"k"` // "expand" | "deep"
	H    []int  `json:"h"`
}

type succ struct {
	Op      int             `json:"o"`
	Key     string          `json:"key"`
	Outcome string          `json:"out"`
	Nontriv bool            `json:"nt"`
	Viol    []rep.Violation `json:"v,omitempty"`
}

type response struct {
	Succ []succ          `json:"s,omitempty"`
	Viol []rep.Violation `json:"v,omitempty"`
	Err  string          `json:"e,omitempty"`
}

func replay(sp *Spec, args json.RawMessage, h []int) (inst Inst, outcome string, viol []rep.Violation, perr string) {
	defer func() {
		if r := recover(); r != nil {
			perr = fmt.Sprintf("harness panic replaying %v: %v\n%s", h, r, debug.Stack())
		}
	}()
	inst = sp.New(args)
	for i, op := range h {
		if !inst.Enabled(op) {
			return inst, "", nil, fmt.Sprintf("replay divergence: op %d (%s) not enabled at step %d of %v", op, sp.Ops[op], i, h)
		}
		outcome, viol = inst.Apply(op)
	}
	return inst, outcome, viol, ""
}

// HistNames renders a history.
func HistNames(sp *Spec, h []int) []string {
	out := make([]string, len(h))
	for i, o := range h {
		out[i] = sp.Ops[o]
	}
	return out
}

func fillCase(sp *Spec, h []int, vs []rep.Violation) []rep.Violation {
	for i := range vs {
		vs[i].Depth = len(h)
		if vs[i].Case == nil {
			vs[i].Case = map[string]interface{}{"spec": sp.Name, "history": HistNames(sp, h), "ops": h}
		}
	}
	return vs
}

// ChildMain serves requests if this process is a seqx worker.
func ChildMain() bool {
	name := os.Getenv("VCHECK_SEQX")
	if name == "" {
		return false
	}
	sp := specs[name]
	if sp == nil {
		fmt.Fprintf(os.Stderr, "unknown seqx spec %q\n", name)
		os.Exit(3)
	}
	debug.SetMaxStack(256 << 20)
	args := json.RawMessage(os.Getenv("VCHECK_ARGS"))
	in := bufio.NewReaderSize(os.Stdin, 1<<20)
	out := bufio.NewWriterSize(os.Stdout, 1<<20)
	enc := json.NewEncoder(out)
	for {
		line, err := in.ReadBytes('\n')
		if len(line) > 0 {
			var rq request
			if e := json.Unmarshal(line, &rq); e != nil {
				fmt.Fprintf(os.Stderr, "bad request: %v\n", e)
				os.Exit(3)
			}
			var rs response
			switch rq.Kind {
			case "expand":
				inst, _, _, perr := replay(sp, args, rq.H)
				if perr != "" {
					rs.Err = perr
					break
				}
				var en []int
				for op := range sp.Ops {
					if inst.Enabled(op) {
						en = append(en, op)
					}
				}
				for _, op := range en {
					h2 := append(append([]int{}, rq.H...), op)
					i2, outc, viol, perr := replay(sp, args, h2)
					if perr != "" {
						rs.Err = perr
						break
					}
					if len(viol) > 0 {
						// confirm determinism: the same history must give the same signatures again
						_, _, viol2, _ := replay(sp, args, h2)
						if sigSet(viol) != sigSet(viol2) {
							rs.Err = fmt.Sprintf("non-deterministic verdict for %v: %s vs %s", HistNames(sp, h2), sigSet(viol), sigSet(viol2))
							break
						}
					}
					rs.Succ = append(rs.Succ, succ{Op: op, Key: i2.Key(), Outcome: sp.Ops[op] + "=>" + outc, Nontriv: i2.Nontrivial(), Viol: fillCase(sp, h2, viol)})
				}
			case "deep":
				inst, _, _, perr := replay(sp, args, rq.H)
				if perr != "" {
					rs.Err = perr
					break
				}
				func() {
					defer func() {
						if r := recover(); r != nil {
							rs.Err = fmt.Sprintf("harness panic in deep check of %v: %v\n%s", rq.H, r, debug.Stack())
						}
					}()
					rs.Viol = fillCase(sp, rq.H, inst.Deep())
				}()
			}
			if e := enc.Encode(&rs); e != nil {
				os.Exit(3)
			}
			out.Flush()
		}
		if err != nil {
			break
		}
	}
	os.Exit(0)
	return true
}

func sigSet(vs []rep.Violation) string {
	m := map[string]bool{}
	for _, v := range vs {
		m[v.Sig] = true
	}
	var ks []string
	for k := range m {
		ks = append(ks, k)
	}
	sortStrings(ks)
	return strings.Join(ks, ",")
}

func sortStrings(a []string) {
	for i := 1; i < len(a); i++ {
		for j := i; j > 0 && a[j] < a[j-1]; j-- {
			a[j], a[j-1] = a[j-1], a[j]
		}
	}
}

type worker struct {
	cmd *exec.Cmd
	in  io.WriteCloser
	out *bufio.Reader
	err *strings.Builder
}

func startWorker(name string, args []byte) (*worker, error) {
	exe, err := os.Executable()
	if err != nil {
		exe = os.Args[0]
	}
	cmd := exec.Command(exe)
	cmd.Env = append(os.Environ(), "VCHECK_SEQX="+name, "VCHECK_ARGS="+string(args), "GOMAXPROCS=2")
	w := &worker{cmd: cmd, err: &strings.Builder{}}
	cmd.Stderr = &limitedWriter{b: w.err}
	w.in, err = cmd.StdinPipe()
	if err != nil {
		return nil, err
	}
	so, err := cmd.StdoutPipe()
	if err != nil {
		return nil, err
	}
	w.out = bufio.NewReaderSize(so, 1<<20)
	if err := cmd.Start(); err != nil {
		return nil, err
	}
	return w, nil
}

type limitedWriter struct {
	mu sync.Mutex
	b  *strings.Builder
}

func (l *limitedWriter) Write(p []byte) (int, error) {
	l.mu.Lock()
	defer l.mu.Unlock()
	if l.b.Len() < 8000 {
		l.b.Write(p)
	}
	return len(p), nil
}

func (w *worker) call(rq request, timeout time.Duration) (*response, error) {
	b, _ := json.Marshal(rq)
	b = append(b, '\n')
	if _, err := w.in.Write(b); err != nil {
		return nil, err
	}
	type res struct {
		r   *response
		err error
	}
	ch := make(chan res, 1)
	go func() {
		line, err := w.out.ReadBytes('\n')
		if err != nil {
			ch <- res{nil, err}
			return
		}
		var rs response
		if e := json.Unmarshal(line, &rs); e != nil {
			ch <- res{nil, e}
			return
		}
		ch <- res{&rs, nil}
	}()
	select {
	case r := <-ch:
		return r.r, r.err
	case <-time.After(timeout):
		w.cmd.Process.Kill()
		return nil, fmt.Errorf("timeout after %v", timeout)
	}
}

func (w *worker) stop() {
	w.in.Close()
	done := make(chan struct{})
	go func() { w.cmd.Wait(); close(done) }()
	select {
	case <-done:
	case <-time.After(5 * time.Second):
		w.cmd.Process.Kill()
		<-done
	}
}

// Opts configures a search.
type Opts struct {
	Depth    int
	Workers  int
	Args     interface{}
	Deadline time.Time
	// CrashSig builds the violation for a history whose expansion killed or hung the worker.
	CrashSig func(h []string, kind, stderr string) rep.Violation
	Timeout  time.Duration
	// FullDepth: histories of at most this length are expanded even when their state key was already
	// reached by another history (no deduplication up to that length), so that every sequence of
	// FullDepth+1 operations is executed whatever the state abstraction merges.
	FullDepth int
}

// Search runs the BFS and returns what it covered.
func Search(name string, o Opts) *rep.Partial {
	sp := specs[name]
	P := rep.NewPartial()
	if sp == nil {
		P.HarnessErrs = append(P.HarnessErrs, "unknown spec "+name)
		return P
	}
	if o.Workers <= 0 {
		o.Workers = runtime.NumCPU()
	}
	if o.Timeout == 0 {
		o.Timeout = 180 * time.Second
	}
	args, _ := json.Marshal(o.Args)

	// initial state key
	inst0 := sp.New(args)
	seen := map[string]struct{}{inst0.Key(): {}}
	P.Keys = append(P.Keys, inst0.Key())
	frontier := [][]int{{}}
	nontriv := map[string]struct{}{}
	var mu sync.Mutex
	maxDepthDone := 0

	type job struct {
		kind string
		h    []int
	}
	runPhase := func(jobs []job, handle func(j job, rs *response)) bool {
		ch := make(chan job, len(jobs))
		for _, j := range jobs {
			ch <- j
		}
		close(ch)
		var wg sync.WaitGroup
		stopped := false
		for wi := 0; wi < o.Workers && wi < len(jobs); wi++ {
			wg.Add(1)
			go func() {
				defer wg.Done()
				var w *worker
				defer func() {
					if w != nil {
						w.stop()
					}
				}()
				for j := range ch {
					if !o.Deadline.IsZero() && time.Now().After(o.Deadline) {
						mu.Lock()
						stopped = true
						mu.Unlock()
						continue
					}
					if w == nil {
						var err error
						w, err = startWorker(name, args)
						if err != nil {
							mu.Lock()
							P.HarnessErrs = append(P.HarnessErrs, "start worker: "+err.Error())
							mu.Unlock()
							return
						}
					}
					rs, err := w.call(request{Kind: j.kind, H: j.h}, o.Timeout)
					if err != nil {
						// the worker died or hung on this history
						kind := "crash"
						if strings.Contains(err.Error(), "timeout") {
							kind = "hang"
						}
						w.cmd.Process.Kill()
						w.cmd.Wait()
						stderr := w.err.String()
						w = nil
						mu.Lock()
						if o.CrashSig != nil {
							v := o.CrashSig(HistNames(sp, j.h), kind, stderr)
							v.Depth = len(j.h) + 1
							if v.Case == nil {
								v.Case = map[string]interface{}{"spec": sp.Name, "history_expanded": HistNames(sp, j.h), "phase": j.kind}
							}
							P.Violate(v)
						} else {
							P.HarnessErrs = append(P.HarnessErrs, fmt.Sprintf("worker %s on %v (%s): %v: %s", kind, HistNames(sp, j.h), j.kind, err, tail(stderr)))
						}
						mu.Unlock()
						continue
					}
					mu.Lock()
					if rs.Err != "" {
						P.HarnessErrs = append(P.HarnessErrs, rs.Err)
					} else {
						handle(j, rs)
					}
					mu.Unlock()
				}
			}()
		}
		wg.Wait()
		return !stopped
	}

	for depth := 0; depth < o.Depth && len(frontier) > 0; depth++ {
		var next [][]int
		jobs := make([]job, len(frontier))
		for i, h := range frontier {
			jobs[i] = job{"expand", h}
		}
		complete := runPhase(jobs, func(j job, rs *response) {
			for _, s := range rs.Succ {
				P.Transitions++
				P.Evals++
				P.Traces++
				P.Outcome(s.Outcome)
				for _, v := range s.Viol {
					P.Violate(v)
				}
				if s.Nontriv {
					nontriv[s.Key+"|"+s.Outcome] = struct{}{}
				}
				_, known := seen[s.Key]
				if !known || len(j.h)+1 <= o.FullDepth {
					seen[s.Key] = struct{}{}
					h2 := append(append([]int{}, j.h...), s.Op)
					next = append(next, h2)
					if len(P.Samples) < 6 && len(h2) == o.Depth {
						P.Samples = append(P.Samples, map[string]interface{}{"history": HistNames(sp, h2), "outcome_of_last": s.Outcome})
					}
				}
			}
		})
		if len(P.HarnessErrs) > 0 {
			break
		}
		if !complete {
			P.Incomplete = true
			P.Notes = append(P.Notes, fmt.Sprintf("budget deadline hit while expanding depth %d; depth %d is fully covered", depth+1, maxDepthDone))
			break
		}
		// deterministic order of the next frontier
		sortHist(next)
		if !sp.NoDeep {
			djobs := make([]job, len(next))
			for i, h := range next {
				djobs[i] = job{"deep", h}
			}
			complete = runPhase(djobs, func(j job, rs *response) {
				P.Add("deep_checks", 1)
				for _, v := range rs.Viol {
					P.Violate(v)
				}
			})
			if !complete {
				P.Incomplete = true
				P.Notes = append(P.Notes, fmt.Sprintf("budget deadline hit during deep checks of depth %d", depth+1))
				break
			}
		}
		maxDepthDone = depth + 1
		P.Add("frontier_depth_"+strconv.Itoa(depth+1), int64(len(next)))
		frontier = next
	}
	P.Keys = P.Keys[:0]
	for k := range seen {
		P.Keys = append(P.Keys, k)
	}
	for k := range nontriv {
		P.Nontrivial = append(P.Nontrivial, k)
	}
	P.Extra["max_depth_completed"] = int64(maxDepthDone)
	if len(P.Samples) == 0 && len(frontier) > 0 {
		P.Samples = append(P.Samples, map[string]interface{}{"history": HistNames(sp, frontier[len(frontier)-1])})
	}
	return P
}

func tail(s string) string {
	if len(s) > 1500 {
		return s[:700] + " ... " + s[len(s)-700:]
	}
	return s
}

func sortHist(hs [][]int) {
	less := func(a, b []int) bool {
		for i := 0; i < len(a) && i < len(b); i++ {
			if a[i] != b[i] {
				return a[i] < b[i]
			}
		}
		return len(a) < len(b)
	}
	// simple merge sort via sort.Slice equivalent
	quick(hs, less)
}

func quick(a [][]int, less func(x, y []int) bool) {
	if len(a) < 2 {
		return
	}
	p := a[len(a)/2]
	i, j := 0, len(a)-1
	for i <= j {
		for less(a[i], p) {
			i++
		}
		for less(p, a[j]) {
			j--
		}
		if i <= j {
			a[i], a[j] = a[j], a[i]
			i++
			j--
		}
	}
	quick(a[:j+1], less)
	quick(a[i:], less)
}

// ReplayOne replays a single history in this process, returning the violations of the last step and of the deep check.
func ReplayOne(name string, args interface{}, h []int) ([]rep.Violation, string) {
	sp := specs[name]
	ab, _ := json.Marshal(args)
	inst, _, viol, perr := replay(sp, ab, h)
	if perr != "" {
		return nil, perr
	}
	viol = append(viol, inst.Deep()...)
	return fillCase(sp, h, viol), ""
}
