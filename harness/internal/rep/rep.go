// Package rep collects what a check run covered and found, writes the evidence
// file, classifies violation signatures against /verif/known_findings.json and
// produces the exit status required by the interface.
package rep

import (
	"crypto/sha256"
	"encoding/hex"
	"encoding/json"
	"fmt"
	"os"
	"path/filepath"
	"sort"
	"strconv"
	"strings"
	"sync"
	"time"
)

// VerifDir is the root of the verification tree.
var VerifDir = func() string {
	if d := os.Getenv("VERIF_DIR"); d != "" {
		return d
	}
	return "/verif"
}()

// Violation is one observed violation of a property, identified by Sig.
type Violation struct {
	Sig    string      `json:"signature"`
	Clause string      `json:"clause"`
	What   string      `json:"what"`
	Depth  int         `json:"depth"`
	Case   interface{} `json:"case"` // minimal history / input / schedule, replayable
	Expect interface{} `json:"expected,omitempty"`
	Got    interface{} `json:"observed,omitempty"`
	Count  int64       `json:"occurrences"`
}

// Partial is what one shard (or one phase) of a run contributes.
type Partial struct {
	Evals       int64                 `json:"evals"`
	Transitions int64                 `json:"transitions"`
	Traces      int64                 `json:"traces"`
	Keys        []string              `json:"keys,omitempty"`
	Nontrivial  []string              `json:"nontrivial,omitempty"`
	Outcomes    map[string]int64      `json:"outcomes,omitempty"`
	Violations  map[string]*Violation `json:"violations,omitempty"`
	Samples     []interface{}         `json:"samples,omitempty"`
	Extra       map[string]int64      `json:"extra,omitempty"`
	Incomplete  bool                  `json:"incomplete,omitempty"`
	Notes       []string              `json:"notes,omitempty"`
	HarnessErrs []string              `json:"harness_errors,omitempty"`
}

func NewPartial() *Partial {
	return &Partial{Outcomes: map[string]int64{}, Violations: map[string]*Violation{}, Extra: map[string]int64{}}
}

// Violate records a violation, keeping the shallowest case per signature.
func (p *Partial) Violate(v Violation) {
	if p.Violations == nil {
		p.Violations = map[string]*Violation{}
	}
	old, ok := p.Violations[v.Sig]
	if !ok {
		v.Count = 1
		p.Violations[v.Sig] = &v
		return
	}
	old.Count++
	if v.Depth < old.Depth {
		c := old.Count
		v.Count = c
		p.Violations[v.Sig] = &v
	}
}

func (p *Partial) Outcome(o string) {
	if p.Outcomes == nil {
		p.Outcomes = map[string]int64{}
	}
	p.Outcomes[o]++
}

func (p *Partial) Add(k string, n int64) {
	if p.Extra == nil {
		p.Extra = map[string]int64{}
	}
	p.Extra[k] += n
}

// Merge folds q into p.
func (p *Partial) Merge(q *Partial) {
	if q == nil {
		return
	}
	p.Evals += q.Evals
	p.Transitions += q.Transitions
	p.Traces += q.Traces
	p.Keys = append(p.Keys, q.Keys...)
	p.Nontrivial = append(p.Nontrivial, q.Nontrivial...)
	for k, v := range q.Outcomes {
		if p.Outcomes == nil {
			p.Outcomes = map[string]int64{}
		}
		p.Outcomes[k] += v
	}
	for _, v := range q.Violations {
		c := v.Count
		vv := *v
		if old, ok := p.Violations[v.Sig]; ok {
			total := old.Count + c
			if vv.Depth < old.Depth {
				vv.Count = total
				p.Violations[v.Sig] = &vv
			} else {
				old.Count = total
			}
		} else {
			if p.Violations == nil {
				p.Violations = map[string]*Violation{}
			}
			p.Violations[v.Sig] = &vv
		}
	}
	if len(p.Samples) < 12 {
		p.Samples = append(p.Samples, q.Samples...)
	}
	for k, v := range q.Extra {
		if p.Extra == nil {
			p.Extra = map[string]int64{}
		}
		p.Extra[k] += v
	}
	p.Incomplete = p.Incomplete || q.Incomplete
	p.Notes = append(p.Notes, q.Notes...)
	p.HarnessErrs = append(p.HarnessErrs, q.HarnessErrs...)
}

// Hash returns a short stable hash string.
func Hash(parts ...string) string {
	h := sha256.New()
	for _, s := range parts {
		h.Write([]byte(s))
		h.Write([]byte{0})
	}
	return hex.EncodeToString(h.Sum(nil)[:12])
}

func distinct(xs []string) int {
	m := make(map[string]struct{}, len(xs))
	for _, x := range xs {
		m[x] = struct{}{}
	}
	return len(m)
}

// ---------------------------------------------------------------------------

type knownEntry struct {
	Property  string      `json:"property"`
	Signature string      `json:"signature"`
	What      string      `json:"what"`
	Witness   interface{} `json:"witness,omitempty"`
}
type fixedEntry struct {
	Property string `json:"property"`
	Commit   string `json:"commit"`
	What     string `json:"what"`
	Line     string `json:"line"`
}
type knownFile struct {
	Known []knownEntry `json:"known"`
	Fixed []fixedEntry `json:"fixed"`
}

func loadKnown() (map[string]knownEntry, error) {
	out := map[string]knownEntry{}
	b, err := os.ReadFile(filepath.Join(VerifDir, "known_findings.json"))
	if err != nil {
		if os.IsNotExist(err) {
			return out, nil
		}
		return nil, err
	}
	var kf knownFile
	if err := json.Unmarshal(b, &kf); err != nil {
		return nil, err
	}
	for _, k := range kf.Known {
		out[k.Property+"\x00"+k.Signature] = k
	}
	return out, nil
}

// Run is one invocation of a check.
type Run struct {
	ID         string
	Tier       string
	Seed       int
	Level      string
	Rule       string
	Bounds     map[string]interface{}
	Assume     []string
	start      time.Time
	mu         sync.Mutex
	P          *Partial
	Exhaustive bool
	Deadline   time.Time
}

func NewRun(id, tier, level string) *Run {
	seed, _ := strconv.Atoi(os.Getenv("VERIF_SEED"))
	r := &Run{ID: id, Tier: tier, Seed: seed, Level: level, start: time.Now(), P: NewPartial(), Exhaustive: true, Bounds: map[string]interface{}{}}
	budget := 15 * time.Minute
	if tier == "thorough" {
		budget = 55 * time.Minute
	}
	if s := os.Getenv("VERIF_BUDGET_S"); s != "" {
		if n, err := strconv.Atoi(s); err == nil {
			budget = time.Duration(n) * time.Second
		}
	}
	r.Deadline = r.start.Add(budget)
	return r
}

func (r *Run) Merge(q *Partial) {
	r.mu.Lock()
	defer r.mu.Unlock()
	r.P.Merge(q)
}

func (r *Run) OutOfTime() bool { return time.Now().After(r.Deadline) }

func sanitize(s string) string {
	var b strings.Builder
	for _, c := range s {
		switch {
		case c >= 'a' && c <= 'z', c >= 'A' && c <= 'Z', c >= '0' && c <= '9', c == '-', c == '_', c == '.':
			b.WriteRune(c)
		default:
			b.WriteByte('_')
		}
	}
	out := b.String()
	if len(out) > 80 {
		out = out[:80]
	}
	return out
}

// Finish writes evidence and replays, prints the verdict lines and exits.
func (r *Run) Finish() {
	p := r.P
	if p.Incomplete {
		r.Exhaustive = false
	}
	known, err := loadKnown()
	if err != nil {
		fmt.Fprintf(os.Stderr, "harness error: known_findings.json: %v\n", err)
		os.Exit(2)
	}
	sigs := make([]string, 0, len(p.Violations))
	for s := range p.Violations {
		sigs = append(sigs, s)
	}
	sort.Strings(sigs)
	nViol, nKnown := 0, 0
	var lines []string
	knownSeen := []string{}
	for _, s := range sigs {
		v := p.Violations[s]
		if k, ok := known[r.ID+"\x00"+s]; ok {
			nKnown++
			knownSeen = append(knownSeen, s)
			lines = append(lines, fmt.Sprintf("KNOWN-FINDING: property=%s %s [%s] (x%d)", r.ID, k.What, s, v.Count))
			continue
		}
		nViol++
		dir := filepath.Join(VerifDir, "replays", r.ID)
		if d := os.Getenv("VERIF_SCRATCH_OUT"); d != "" {
			dir = filepath.Join(d, "replays", r.ID)
		}
		os.MkdirAll(dir, 0o755)
		path := filepath.Join(dir, sanitize(s)+"-"+Hash(s)[:8]+".json")
		b, _ := json.MarshalIndent(map[string]interface{}{"property": r.ID, "tier": r.Tier, "violation": v}, "", " ")
		os.WriteFile(path, b, 0o644)
		lines = append(lines, fmt.Sprintf("# %s: %s", s, v.What))
		lines = append(lines, fmt.Sprintf("VIOLATION property=%s replay=%s", r.ID, path))
	}
	states := distinct(p.Keys)
	nontriv := distinct(p.Nontrivial)
	outc := map[string]int64{}
	for k, v := range p.Outcomes {
		outc[k] = v
	}
	samples := p.Samples
	if len(samples) > 8 {
		// rotate by seed so that different seeds show different samples
		off := 0
		if len(samples) > 0 {
			off = ((r.Seed % len(samples)) + len(samples)) % len(samples)
		}
		rot := append(append([]interface{}{}, samples[off:]...), samples[:off]...)
		samples = rot[:8]
	}
	if len(samples) == 0 {
		samples = []interface{}{"(no sample recorded)"}
	}
	cov := map[string]interface{}{
		"evaluations":                   p.Evals,
		"distinct_nontrivial":           nontriv,
		"rule":                          r.Rule,
		"samples":                       samples,
		"states":                        states,
		"transitions":                   p.Transitions,
		"traces_validated_against_impl": p.Traces,
		"exhaustive":                    r.Exhaustive,
		"bounds":                        r.Bounds,
		"distinct_outcomes":             len(outc),
		"outcomes":                      outc,
		"known_findings_reobserved":     knownSeen,
		"new_violation_signatures":      nViol,
	}
	for k, v := range p.Extra {
		cov[k] = v
	}
	if len(p.Notes) > 0 {
		n := p.Notes
		if len(n) > 20 {
			n = n[:20]
		}
		cov["notes"] = n
	}
	if len(p.HarnessErrs) > 0 {
		cov["harness_errors"] = p.HarnessErrs
	}
	if r.Assume == nil {
		r.Assume = []string{}
	}
	ev := map[string]interface{}{
		"property_id": r.ID,
		"tier":        r.Tier,
		"seed":        r.Seed,
		"level":       r.Level,
		"coverage":    cov,
		"assumptions": r.Assume,
		"wall_s":      time.Since(r.start).Seconds(),
		"violations":  nViol,
	}
	b, _ := json.MarshalIndent(ev, "", " ")
	evDir := filepath.Join(VerifDir, "evidence")
	if d := os.Getenv("VERIF_SCRATCH_OUT"); d != "" {
		// seeded-change and mutation runs must not overwrite the evidence of the real tree
		evDir = filepath.Join(d, "evidence")
	}
	os.MkdirAll(evDir, 0o755)
	if err := os.WriteFile(filepath.Join(evDir, r.ID+".json"), b, 0o644); err != nil {
		fmt.Fprintf(os.Stderr, "harness error: %v\n", err)
		os.Exit(2)
	}
	for _, l := range lines {
		fmt.Println(l)
	}
	fmt.Printf("%s %s: evals=%d states=%d transitions=%d nontrivial=%d outcomes=%d known=%d violations=%d exhaustive=%v wall=%.1fs\n",
		r.ID, r.Tier, p.Evals, states, p.Transitions, nontriv, len(outc), nKnown, nViol, r.Exhaustive, time.Since(r.start).Seconds())
	for _, e := range p.HarnessErrs {
		fmt.Fprintf(os.Stderr, "harness error: %s\n", e)
	}
	// a reported violation decides the exit status: a change that makes the library nondeterministic
	// (e.g. a buffer whose reuse depends on map-ordered sizes) also trips the determinism self-checks,
	// and that must not turn exit 1 into exit 2
	if nViol > 0 {
		os.Exit(1)
	}
	if len(p.HarnessErrs) > 0 {
		os.Exit(2)
	}
	os.Exit(0)
}
