// Package foreign writes third-party-like WordprocessingML packages from string
// templates.  It uses no code of the library under test.
package foreign

import (
	"archive/zip"
	"bytes"
	"fmt"
	"sort"
	"strings"
)

const (
	NsW   = "http://schemas.openxmlformats.org/wordprocessingml/2006/main"
	NsR   = "http://schemas.openxmlformats.org/officeDocument/2006/relationships"
	NsRel = "http://schemas.openxmlformats.org/package/2006/relationships"
	NsCT  = "http://schemas.openxmlformats.org/package/2006/content-types"
)

// Rel is a relationship to be written.
type Rel struct {
	ID, Type, Target string
	External         bool
}

// Part is one ZIP entry.
type Part struct {
	Name string
	Data []byte
}

// Pkg is a package under construction.
type Pkg struct {
	Parts     []Part
	Defaults  map[string]string
	Overrides map[string]string
	RootRels  []Rel
	DocRels   []Rel
	OtherRels map[string][]Rel // rels part name -> rels
	DocName   string
}

// New returns a package skeleton with the usual defaults.
func New() *Pkg {
	return &Pkg{
		Defaults:  map[string]string{"rels": "application/vnd.openxmlformats-package.relationships+xml", "xml": "application/xml"},
		Overrides: map[string]string{},
		OtherRels: map[string][]Rel{},
		DocName:   "word/document.xml",
	}
}

func (p *Pkg) Add(name string, data []byte) { p.Parts = append(p.Parts, Part{name, data}) }

func relsXML(rels []Rel) []byte {
	var b strings.Builder
	b.WriteString(`<?xml version="1.0" encoding="UTF-8" standalone="yes"?>` + "\n")
	b.WriteString(`<Relationships xmlns="` + NsRel + `">`)
	for _, r := range rels {
		fmt.Fprintf(&b, `<Relationship Id="%s" Type="%s" Target="%s"`, r.ID, r.Type, r.Target)
		if r.External {
			b.WriteString(` TargetMode="External"`)
		}
		b.WriteString(`/>`)
	}
	b.WriteString(`</Relationships>`)
	return []byte(b.String())
}

// Bytes writes the ZIP: content types, root rels, document rels, then parts in order.
func (p *Pkg) Bytes() []byte {
	var buf bytes.Buffer
	zw := zip.NewWriter(&buf)
	w := func(name string, data []byte) {
		f, _ := zw.Create(name)
		f.Write(data)
	}
	var ct strings.Builder
	ct.WriteString(`<?xml version="1.0" encoding="UTF-8" standalone="yes"?>` + "\n" + `<Types xmlns="` + NsCT + `">`)
	exts := make([]string, 0)
	for e := range p.Defaults {
		exts = append(exts, e)
	}
	sort.Strings(exts)
	for _, e := range exts {
		fmt.Fprintf(&ct, `<Default Extension="%s" ContentType="%s"/>`, e, p.Defaults[e])
	}
	ov := map[string]string{"/" + p.DocName: "application/vnd.openxmlformats-officedocument.wordprocessingml.document.main+xml"}
	for k, v := range p.Overrides {
		ov[k] = v
	}
	names := make([]string, 0)
	for n := range ov {
		names = append(names, n)
	}
	sort.Strings(names)
	for _, n := range names {
		fmt.Fprintf(&ct, `<Override PartName="%s" ContentType="%s"/>`, n, ov[n])
	}
	ct.WriteString(`</Types>`)
	w("[Content_Types].xml", []byte(ct.String()))
	root := p.RootRels
	if len(root) == 0 {
		root = []Rel{{ID: "rId1", Type: NsR + "/officeDocument", Target: p.DocName}}
	}
	w("_rels/.rels", relsXML(root))
	if len(p.DocRels) > 0 {
		dir, file := "", p.DocName
		if i := strings.LastIndex(p.DocName, "/"); i >= 0 {
			dir, file = p.DocName[:i+1], p.DocName[i+1:]
		}
		w(dir+"_rels/"+file+".rels", relsXML(p.DocRels))
	}
	rn := make([]string, 0)
	for n := range p.OtherRels {
		rn = append(rn, n)
	}
	sort.Strings(rn)
	for _, n := range rn {
		w(n, relsXML(p.OtherRels[n]))
	}
	for _, pt := range p.Parts {
		w(pt.Name, pt.Data)
	}
	zw.Close()
	return buf.Bytes()
}

// DocXML wraps body content into a w:document with the given prefix style:
// "w" (usual), "" (default namespace), or any other prefix.
func DocXML(prefix, body string) []byte {
	decl := `<?xml version="1.0" encoding="UTF-8" standalone="yes"?>` + "\n"
	if prefix == "" {
		return []byte(decl + `<document xmlns="` + NsW + `" xmlns:r="` + NsR + `"><body>` + body + `</body></document>`)
	}
	return []byte(decl + `<` + prefix + `:document xmlns:` + prefix + `="` + NsW + `" xmlns:r="` + NsR + `"><` + prefix + `:body>` + body + `</` + prefix + `:body></` + prefix + `:document>`)
}

// Minimal returns a minimal package whose body is the given w:-prefixed XML.
func Minimal(body string) []byte {
	p := New()
	p.Add(p.DocName, DocXML("w", body))
	return p.Bytes()
}

// RawZip writes the given entries verbatim, in order (for malformed-package seeds).
func RawZip(parts []Part) []byte {
	var buf bytes.Buffer
	zw := zip.NewWriter(&buf)
	for _, pt := range parts {
		f, _ := zw.Create(pt.Name)
		f.Write(pt.Data)
	}
	zw.Close()
	return buf.Bytes()
}
