// Package foreign writes third-party-like WordprocessingML packages from string
// templates.  It uses no code of the library under test.
package foreign

import (
	"archive/zip"
	"bytes"
	"fmt"
	"sort"
	"strings"
)

const (
	NsW   = "http://schemas.openxmlformats.org/wordprocessingml/2006/main"
	NsR   = "http://schemas.openxmlformats.org/officeDocument/2006/relationships"
	NsRel = "http://schemas.openxmlformats.org/package/2006/relationships"
	NsCT  = "http://schemas.openxmlformats.org/package/2006/content-types"
)

// Rel is a relationship to be written.
type Rel struct {
	ID, Type, Target string
	External         bool
}

// Part is one ZIP entry.
type Part struct {
	Name string
	Data []byte
}

// Pkg is a package under construction.
type Pkg struct {
	Parts     []Part
	Defaults  map[string]string
	Overrides map[string]string
	RootRels  []Rel
	DocRels   []Rel
	OtherRels map[string][]Rel // rels part name -> rels
	DocName   string
	Stored    bool // write every entry with method Store instead of Deflate
}

// New returns a package skeleton with the usual defaults.
func New() *Pkg {
	return &Pkg{
		Defaults:  map[string]string{"rels": "application/vnd.openxmlformats-package.relationships+xml", "xml": "application/xml"},
		Overrides: map[string]string{},
		OtherRels: map[string][]Rel{},
		DocName:   "word/document.xml",
	}
}

func (p *Pkg) Add(name string, data []byte) { p.Parts = append(p.Parts, Part{name, data}) }

func relsXML(rels []Rel) []byte {
	var b strings.Builder
	b.WriteString(`<?xml version="1.0" encoding="UTF-8" standalone="yes"?>` + "\n")
	b.WriteString(`<Relationships xmlns="` + NsRel + `">`)
	for _, r := range rels {
		fmt.Fprintf(&b, `<Relationship Id="%s" Type="%s" Target="%s"`, r.ID, r.Type, strings.ReplaceAll(r.Target, "&", "&amp;"))
		if r.External {
			b.WriteString(` TargetMode="External"`)
		}
		b.WriteString(`/>`)
	}
	b.WriteString(`</Relationships>`)
	return []byte(b.String())
}

// Bytes writes the ZIP: content types, root rels, document rels, then parts in order.
func (p *Pkg) Bytes() []byte {
	var buf bytes.Buffer
	zw := zip.NewWriter(&buf)
	w := func(name string, data []byte) {
		if p.Stored {
			f, _ := zw.CreateHeader(&zip.FileHeader{Name: name, Method: zip.Store})
			f.Write(data)
			return
		}
		f, _ := zw.Create(name)
		f.Write(data)
	}
	var ct strings.Builder
	ct.WriteString(`<?xml version="1.0" encoding="UTF-8" standalone="yes"?>` + "\n" + `<Types xmlns="` + NsCT + `">`)
	exts := make([]string, 0)
	for e := range p.Defaults {
		exts = append(exts, e)
	}
	sort.Strings(exts)
	for _, e := range exts {
		fmt.Fprintf(&ct, `<Default Extension="%s" ContentType="%s"/>`, e, p.Defaults[e])
	}
	ov := map[string]string{"/" + p.DocName: "application/vnd.openxmlformats-officedocument.wordprocessingml.document.main+xml"}
	for k, v := range p.Overrides {
		ov[k] = v
	}
	names := make([]string, 0)
	for n := range ov {
		names = append(names, n)
	}
	sort.Strings(names)
	for _, n := range names {
		fmt.Fprintf(&ct, `<Override PartName="%s" ContentType="%s"/>`, n, ov[n])
	}
	ct.WriteString(`</Types>`)
	w("[Content_Types].xml", []byte(ct.String()))
	root := p.RootRels
	if len(root) == 0 {
		root = []Rel{{ID: "rId1", Type: NsR + "/officeDocument", Target: p.DocName}}
	}
	w("_rels/.rels", relsXML(root))
	if len(p.DocRels) > 0 {
		dir, file := "", p.DocName
		if i := strings.LastIndex(p.DocName, "/"); i >= 0 {
			dir, file = p.DocName[:i+1], p.DocName[i+1:]
		}
		w(dir+"_rels/"+file+".rels", relsXML(p.DocRels))
	}
	rn := make([]string, 0)
	for n := range p.OtherRels {
		rn = append(rn, n)
	}
	sort.Strings(rn)
	for _, n := range rn {
		w(n, relsXML(p.OtherRels[n]))
	}
	for _, pt := range p.Parts {
		w(pt.Name, pt.Data)
	}
	zw.Close()
	return buf.Bytes()
}

// DocXML wraps body content into a w:document with the given prefix style:
// "w" (usual), "" (default namespace), or any other prefix.
func DocXML(prefix, body string) []byte {
	decl := `<?xml version="1.0" encoding="UTF-8" standalone="yes"?>` + "\n"
	if prefix == "" {
		return []byte(decl + `<document xmlns="` + NsW + `" xmlns:r="` + NsR + `"><body>` + body + `</body></document>`)
	}
	return []byte(decl + `<` + prefix + `:document xmlns:` + prefix + `="` + NsW + `" xmlns:r="` + NsR + `"><` + prefix + `:body>` + body + `</` + prefix + `:body></` + prefix + `:document>`)
}

// Minimal returns a minimal package whose body is the given w:-prefixed XML.
func Minimal(body string) []byte {
	p := New()
	p.Add(p.DocName, DocXML("w", body))
	return p.Bytes()
}

// RawZip writes the given entries verbatim, in order (for malformed-package seeds).
func RawZip(parts []Part) []byte {
	var buf bytes.Buffer
	zw := zip.NewWriter(&buf)
	for _, pt := range parts {
		f, _ := zw.Create(pt.Name)
		f.Write(pt.Data)
	}
	zw.Close()
	return buf.Bytes()
}

const (
	NsA   = "http://schemas.openxmlformats.org/drawingml/2006/main"
	NsWP  = "http://schemas.openxmlformats.org/drawingml/2006/wordprocessingDrawing"
	NsPic = "http://schemas.openxmlformats.org/drawingml/2006/picture"

	CtStyles    = "application/vnd.openxmlformats-officedocument.wordprocessingml.styles+xml"
	CtHeader    = "application/vnd.openxmlformats-officedocument.wordprocessingml.header+xml"
	CtFooter    = "application/vnd.openxmlformats-officedocument.wordprocessingml.footer+xml"
	CtNumbering = "application/vnd.openxmlformats-officedocument.wordprocessingml.numbering+xml"
	CtFootnotes = "application/vnd.openxmlformats-officedocument.wordprocessingml.footnotes+xml"
	CtSettings  = "application/vnd.openxmlformats-officedocument.wordprocessingml.settings+xml"
	CtTheme     = "application/vnd.openxmlformats-officedocument.theme+xml"
	CtFontTable = "application/vnd.openxmlformats-officedocument.wordprocessingml.fontTable+xml"
	CtCore      = "application/vnd.openxmlformats-package.core-properties+xml"
	CtApp       = "application/vnd.openxmlformats-officedocument.extended-properties+xml"
)

// DrawingPara returns a paragraph with an inline picture whose blip embeds rid.
func DrawingPara(rid string, id int, cx, cy int64) string {
	return fmt.Sprintf(`<w:p><w:r><w:drawing><wp:inline xmlns:wp="%s" distT="0" distB="0" distL="0" distR="0"><wp:extent cx="%d" cy="%d"/><wp:docPr id="%d" name="Picture %d"/><a:graphic xmlns:a="%s"><a:graphicData uri="%s"><pic:pic xmlns:pic="%s"><pic:nvPicPr><pic:cNvPr id="%d" name="p%d"/><pic:cNvPicPr/></pic:nvPicPr><pic:blipFill><a:blip r:embed="%s"/><a:stretch><a:fillRect/></a:stretch></pic:blipFill><pic:spPr><a:xfrm><a:off x="0" y="0"/><a:ext cx="%d" cy="%d"/></a:xfrm><a:prstGeom prst="rect"><a:avLst/></a:prstGeom></pic:spPr></pic:pic></a:graphicData></a:graphic></wp:inline></w:drawing></w:r></w:p>`,
		NsWP, cx, cy, id, id, NsA, NsPic, NsPic, id, id, rid, cx, cy)
}

// StylesXML is a small styles part with its own style ids.
func StylesXML() []byte {
	return []byte(`<?xml version="1.0" encoding="UTF-8" standalone="yes"?>` + "\n" + `<w:styles xmlns:w="` + NsW + `"><w:docDefaults><w:rPrDefault><w:rPr><w:sz w:val="22"/></w:rPr></w:rPrDefault></w:docDefaults><w:style w:type="paragraph" w:default="1" w:styleId="Normal"><w:name w:val="Normal"/></w:style><w:style w:type="paragraph" w:styleId="ForeignPara"><w:name w:val="Foreign Para"/><w:basedOn w:val="Normal"/><w:rPr><w:b/></w:rPr></w:style><w:style w:type="character" w:styleId="ForeignChar"><w:name w:val="Foreign Char"/></w:style><w:style w:type="table" w:styleId="ForeignTable"><w:name w:val="Foreign Table"/></w:style></w:styles>`)
}

// HeaderXML / FooterXML are header/footer parts with one paragraph.
func HeaderXML(text string) []byte {
	return []byte(`<?xml version="1.0" encoding="UTF-8" standalone="yes"?>` + "\n" + `<w:hdr xmlns:w="` + NsW + `" xmlns:r="` + NsR + `"><w:p><w:r><w:t>` + text + `</w:t></w:r></w:p></w:hdr>`)
}
func FooterXML(text string) []byte {
	return []byte(`<?xml version="1.0" encoding="UTF-8" standalone="yes"?>` + "\n" + `<w:ftr xmlns:w="` + NsW + `" xmlns:r="` + NsR + `"><w:p><w:r><w:t>` + text + `</w:t></w:r></w:p></w:ftr>`)
}

// NumberingXML defines abstractNum 7 / num 3 (decimal, start 4).
func NumberingXML() []byte {
	return []byte(`<?xml version="1.0" encoding="UTF-8" standalone="yes"?>` + "\n" + `<w:numbering xmlns:w="` + NsW + `"><w:abstractNum w:abstractNumId="7"><w:multiLevelType w:val="hybridMultilevel"/><w:lvl w:ilvl="0"><w:start w:val="4"/><w:numFmt w:val="decimal"/><w:lvlText w:val="%1)"/><w:lvlJc w:val="left"/></w:lvl></w:abstractNum><w:num w:numId="3"><w:abstractNumId w:val="7"/></w:num></w:numbering>`)
}

// ListPara is a paragraph using num 3.
func ListPara(text string) string {
	return `<w:p><w:pPr><w:numPr><w:ilvl w:val="0"/><w:numId w:val="3"/></w:numPr></w:pPr><w:r><w:t>` + text + `</w:t></w:r></w:p>`
}

// Para is a plain paragraph.
func Para(text string) string {
	return `<w:p><w:r><w:t xml:space="preserve">` + text + `</w:t></w:r></w:p>`
}
