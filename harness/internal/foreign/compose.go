package foreign

// Composition of third-party-like packages from a feature list (used by C04).  Everything
// here is string templates; no code of the library under test is used.

import (
	"bytes"
	"fmt"
	"image"
	"image/color"
	"image/png"
	"strings"
)

// Relationship types (package and office-document namespaces).
const (
	RtStyles      = NsR + "/styles"
	RtImage       = NsR + "/image"
	RtHeader      = NsR + "/header"
	RtFooter      = NsR + "/footer"
	RtNumbering   = NsR + "/numbering"
	RtFootnotes   = NsR + "/footnotes"
	RtSettings    = NsR + "/settings"
	RtWebSettings = NsR + "/webSettings"
	RtTheme       = NsR + "/theme"
	RtFontTable   = NsR + "/fontTable"
	RtHyperlink   = NsR + "/hyperlink"
	RtCustomXML   = NsR + "/customXml"
	RtCustomProps = NsR + "/customXmlProps"
	RtExtended    = NsR + "/extended-properties"
	RtCore        = "http://schemas.openxmlformats.org/package/2006/relationships/metadata/core-properties"
	RtOfficeDoc   = NsR + "/officeDocument"

	CtWebSettings = "application/vnd.openxmlformats-officedocument.wordprocessingml.webSettings+xml"
	CtCustomProps = "application/vnd.openxmlformats-officedocument.customXmlProperties+xml"
)

// Features is the ordered list of features Compose understands.  The order is also the order
// in which the features contribute relationships and body content.
var Features = []string{
	"ns-default",         // main part uses the default namespace for elements (attributes keep a prefix)
	"ns-x",               // main part uses the prefix x: instead of w:
	"styles",             // word/styles.xml with its own style ids
	"theme",              // word/theme/theme1.xml
	"fontTable",          // word/fontTable.xml
	"settings",           // word/settings.xml
	"webSettings",        // word/webSettings.xml
	"customXml",          // customXml/item1.xml + itemProps1.xml + customXml/_rels/item1.xml.rels
	"numbering",          // word/numbering.xml (abstractNum 7 / num 3) + a list paragraph using num 3
	"footnotes",          // word/footnotes.xml with footnote 2 + a reference in the body
	"hdr-default",        // default header in word/header1.xml with its own .rels and media
	"hdr-first",          // FIRST-page header stored in word/header1.xml (w:titlePg), no default header
	"ftr-default",        // default footer in word/footer1.xml with its own .rels and media
	"docProps",           // docProps/core.xml + docProps/app.xml with root relationships
	"ext-hyperlink",      // TargetMode="External" hyperlink relationship + w:hyperlink with runs
	"ext-links",          // TargetMode="External" relationships that are NOT hyperlinks: a linked picture (https URL with dot segments and a query) and a linked OLE file (file:/// URL)
	"abs-target",         // an internal relationship whose Target is written as an absolute part name (/word/media/absolute.png)
	"smartTag",           // runs inside w:smartTag
	"ins",                // runs inside w:ins (tracked insertion)
	"sdt-inline",         // runs inside w:sdt/w:sdtContent within a paragraph
	"sdt-block",          // a paragraph inside a body-level w:sdt/w:sdtContent
	"fldSimple",          // runs inside w:fldSimple
	"run-multi-t",        // one run carrying w:t, w:tab, w:t
	"media-IMAGE5",       // body picture stored as word/media/IMAGE5.PNG
	"media-Image0",       // body picture stored as word/media/Image0.png
	"media-picture",      // body picture stored as word/media/picture.png
	"media-image7",       // body picture stored as word/media/image7.png
	"sparse-ids",         // relationship ids of the main part are sparse / not of the form rIdN
	"sparse-ids-even",    // relationship ids of the main part are rId4, rId6, rId8, ...: the id after the first free one is always taken
	"tbl-nogrid",         // a table without w:tblGrid
	"sectpr-in-para",     // the section properties live in the last paragraph's w:pPr, no body-level w:sectPr
	"empty-part",         // a zero-length part (word/embeddings/oleObject1.bin) with a relationship and a Default content type
	"big-part",           // a 200 KiB incompressible binary part (word/attachedData.bin)
	"zip-stored",         // every ZIP entry is stored, not deflated
	"glossary",           // word/glossary/document.xml with its own relationships and styles part
	"comments",           // word/comments.xml + comment range and reference around a run
	"media-override",     // body picture whose content type is given by an Override, not by a Default extension
	"stylesWithEffects",  // Word 2010 word/stylesWithEffects.xml, its relationship listed before all others
	"shared-hdr-id",      // default and even header references that use the same relationship id (one header part for both)
	"skip-nested-inline", // elements no reader models, each holding a descendant of the same name, inside w:rPr, w:r, w:pPr and w:p; text follows each
	"skip-nested-block",  // the same at body, w:tbl, w:tr, w:tc, w:tcPr level, and a VML text box inside a text box; text follows each
}

// Conflict reports whether two features cannot be combined.
func Conflict(a, b string) bool {
	if a > b {
		a, b = b, a
	}
	switch a + "+" + b {
	case "ns-default+ns-x", "hdr-default+hdr-first", "sparse-ids+sparse-ids-even":
		return true
	}
	return false
}

// SmallPNG is a deterministic w x h PNG whose bytes depend on seed.
func SmallPNG(w, h int, seed uint8) []byte {
	im := image.NewRGBA(image.Rect(0, 0, w, h))
	for y := 0; y < h; y++ {
		for x := 0; x < w; x++ {
			im.Set(x, y, color.RGBA{seed, uint8(x*37 + 1), uint8(y*59 + 2), 255})
		}
	}
	var b bytes.Buffer
	png.Encode(&b, im)
	return b.Bytes()
}

const xmlDecl = `<?xml version="1.0" encoding="UTF-8" standalone="yes"?>` + "\n"

// MainXML wraps w:-prefixed body content into the main part, written in the given prefix style:
// "w" (usual), "" (default namespace for elements; attributes use w:), or another prefix.
func MainXML(style, bodyW string) []byte {
	inner := `<w:body>` + bodyW + `</w:body>`
	switch style {
	case "w":
		return []byte(xmlDecl + `<w:document xmlns:w="` + NsW + `" xmlns:r="` + NsR + `">` + inner + `</w:document>`)
	case "":
		inner = strings.ReplaceAll(inner, "</w:", "</")
		inner = strings.ReplaceAll(inner, "<w:", "<")
		return []byte(xmlDecl + `<document xmlns="` + NsW + `" xmlns:w="` + NsW + `" xmlns:r="` + NsR + `">` + inner + `</document>`)
	default:
		inner = strings.ReplaceAll(inner, "</w:", "</"+style+":")
		inner = strings.ReplaceAll(inner, "<w:", "<"+style+":")
		inner = strings.ReplaceAll(inner, " w:", " "+style+":")
		return []byte(xmlDecl + `<` + style + `:document xmlns:` + style + `="` + NsW + `" xmlns:r="` + NsR + `">` + inner + `</` + style + `:document>`)
	}
}

type idAlloc struct {
	sparse bool
	even   bool
	n      int
}

var sparsePool = []string{"rId3", "rId7", "rId12", "R9", "rId2", "rId20", "rId21", "rId5", "docRel30", "rId31", "rId40", "rId41"}

func (a *idAlloc) next() string {
	a.n++
	if a.even {
		return fmt.Sprintf("rId%d", 2+2*a.n)
	}
	if !a.sparse {
		return fmt.Sprintf("rId%d", a.n)
	}
	if a.n <= len(sparsePool) {
		return sparsePool[a.n-1]
	}
	return fmt.Sprintf("rId%d", 100+3*a.n)
}

func run(text string) string { return `<w:r><w:t>` + text + `</w:t></w:r>` }

func hdrFtrXML(root, text, picRid string, picID int) []byte {
	pic := ""
	if picRid != "" {
		pic = DrawingPara(picRid, picID, 9525*3, 9525*2)
	}
	return []byte(xmlDecl + `<w:` + root + ` xmlns:w="` + NsW + `" xmlns:r="` + NsR + `"><w:p><w:pPr><w:pStyle w:val="Header"/></w:pPr><w:r><w:t>` + text + `</w:t></w:r></w:p>` + pic + `</w:` + root + `>`)
}

// Compose builds the package that carries exactly the given features on the minimal base
// (one paragraph "[base]" and a body-level w:sectPr).  Every w:t in the body holds a distinct
// bracketed token, so that lost text can be attributed.
func Compose(feats []string) []byte {
	has := map[string]bool{}
	for _, f := range feats {
		has[f] = true
	}
	p := New()
	ids := &idAlloc{sparse: has["sparse-ids"], even: has["sparse-ids-even"]}
	body := `<w:p><w:r><w:t>[base]</w:t></w:r></w:p>`
	sectRefs := ""
	titlePg := ""
	docPr := 0
	addPart := func(name string, data []byte, ct string) {
		p.Add(name, data)
		if ct != "" {
			p.Overrides["/"+name] = ct
		}
	}
	docRel := func(typ, target string, external bool) string {
		id := ids.next()
		p.DocRels = append(p.DocRels, Rel{ID: id, Type: typ, Target: target, External: external})
		return id
	}
	bodyPic := func(mediaName string, seed uint8) {
		p.Defaults["png"] = "image/png"
		p.Add("word/media/"+mediaName, SmallPNG(3, 2, seed))
		id := docRel(RtImage, "media/"+mediaName, false)
		docPr++
		body += DrawingPara(id, docPr, 9525*3, 9525*2)
	}
	if has["styles"] {
		addPart("word/styles.xml", StylesXML(), CtStyles)
		docRel(RtStyles, "styles.xml", false)
	}
	if has["theme"] {
		addPart("word/theme/theme1.xml", []byte(xmlDecl+`<a:theme xmlns:a="`+NsA+`" name="Foreign Theme"><a:themeElements><a:clrScheme name="F"><a:dk1><a:srgbClr val="000000"/></a:dk1><a:lt1><a:srgbClr val="FFFFFF"/></a:lt1></a:clrScheme><a:fontScheme name="F"><a:majorFont><a:latin typeface="Cambria"/></a:majorFont><a:minorFont><a:latin typeface="Calibri"/></a:minorFont></a:fontScheme></a:themeElements></a:theme>`), CtTheme)
		docRel(RtTheme, "theme/theme1.xml", false)
	}
	if has["fontTable"] {
		addPart("word/fontTable.xml", []byte(xmlDecl+`<w:fonts xmlns:w="`+NsW+`"><w:font w:name="Calibri"><w:panose1 w:val="020F0502020204030204"/><w:charset w:val="00"/><w:family w:val="swiss"/><w:pitch w:val="variable"/></w:font></w:fonts>`), CtFontTable)
		docRel(RtFontTable, "fontTable.xml", false)
	}
	if has["settings"] {
		addPart("word/settings.xml", []byte(xmlDecl+`<w:settings xmlns:w="`+NsW+`"><w:zoom w:percent="120"/><w:defaultTabStop w:val="708"/><w:compat><w:compatSetting w:name="compatibilityMode" w:uri="http://schemas.microsoft.com/office/word" w:val="15"/></w:compat></w:settings>`), CtSettings)
		docRel(RtSettings, "settings.xml", false)
	}
	if has["webSettings"] {
		addPart("word/webSettings.xml", []byte(xmlDecl+`<w:webSettings xmlns:w="`+NsW+`"><w:optimizeForBrowser/><w:allowPNG/></w:webSettings>`), CtWebSettings)
		docRel(RtWebSettings, "webSettings.xml", false)
	}
	if has["customXml"] {
		addPart("customXml/item1.xml", []byte(xmlDecl+`<b:Sources xmlns:b="http://schemas.openxmlformats.org/officeDocument/2006/bibliography" SelectedStyle="\APA.XSL"><b:Source><b:Tag>[cx]</b:Tag></b:Source></b:Sources>`), "")
		addPart("customXml/itemProps1.xml", []byte(xmlDecl+`<ds:datastoreItem xmlns:ds="http://schemas.openxmlformats.org/officeDocument/2006/customXml" ds:itemID="{11111111-2222-3333-4444-555555555555}"><ds:schemaRefs/></ds:datastoreItem>`), CtCustomProps)
		p.OtherRels["customXml/_rels/item1.xml.rels"] = []Rel{{ID: "rId1", Type: RtCustomProps, Target: "itemProps1.xml"}}
		docRel(RtCustomXML, "../customXml/item1.xml", false)
	}
	if has["numbering"] {
		addPart("word/numbering.xml", NumberingXML(), CtNumbering)
		docRel(RtNumbering, "numbering.xml", false)
		body += ListPara("[list-item]")
	}
	if has["footnotes"] {
		addPart("word/footnotes.xml", []byte(xmlDecl+`<w:footnotes xmlns:w="`+NsW+`"><w:footnote w:type="separator" w:id="-1"><w:p><w:r><w:separator/></w:r></w:p></w:footnote><w:footnote w:type="continuationSeparator" w:id="0"><w:p><w:r><w:continuationSeparator/></w:r></w:p></w:footnote><w:footnote w:id="2"><w:p><w:r><w:rPr><w:vertAlign w:val="superscript"/></w:rPr><w:footnoteRef/></w:r><w:r><w:t xml:space="preserve"> [fn-text]</w:t></w:r></w:p></w:footnote></w:footnotes>`), CtFootnotes)
		docRel(RtFootnotes, "footnotes.xml", false)
		body += `<w:p><w:r><w:t>[fn-para]</w:t></w:r><w:r><w:rPr><w:vertAlign w:val="superscript"/></w:rPr><w:footnoteReference w:id="2"/></w:r></w:p>`
	}
	if has["hdr-default"] || has["hdr-first"] {
		p.Defaults["png"] = "image/png"
		kind, text := "default", "[hdr-default]"
		if has["hdr-first"] {
			kind, text = "first", "[hdr-first]"
			titlePg = `<w:titlePg/>`
		}
		addPart("word/header1.xml", hdrFtrXML("hdr", text, "rId1", 901), CtHeader)
		p.Add("word/media/image1.png", SmallPNG(3, 2, 33))
		p.OtherRels["word/_rels/header1.xml.rels"] = []Rel{{ID: "rId1", Type: RtImage, Target: "media/image1.png"}}
		id := docRel(RtHeader, "header1.xml", false)
		sectRefs += `<w:headerReference w:type="` + kind + `" r:id="` + id + `"/>`
	}
	if has["ftr-default"] {
		p.Defaults["png"] = "image/png"
		addPart("word/footer1.xml", hdrFtrXML("ftr", "[ftr-default]", "rId1", 902), CtFooter)
		p.Add("word/media/image2.png", SmallPNG(3, 2, 44))
		p.OtherRels["word/_rels/footer1.xml.rels"] = []Rel{{ID: "rId1", Type: RtImage, Target: "media/image2.png"}}
		id := docRel(RtFooter, "footer1.xml", false)
		sectRefs += `<w:footerReference w:type="default" r:id="` + id + `"/>`
	}
	if has["docProps"] {
		addPart("docProps/core.xml", []byte(xmlDecl+`<cp:coreProperties xmlns:cp="http://schemas.openxmlformats.org/package/2006/metadata/core-properties" xmlns:dc="http://purl.org/dc/elements/1.1/" xmlns:dcterms="http://purl.org/dc/terms/" xmlns:xsi="http://www.w3.org/2001/XMLSchema-instance"><dc:title>Foreign title</dc:title><dc:creator>Someone</dc:creator><dcterms:created xsi:type="dcterms:W3CDTF">2019-03-04T05:06:07Z</dcterms:created></cp:coreProperties>`), CtCore)
		addPart("docProps/app.xml", []byte(xmlDecl+`<Properties xmlns="http://schemas.openxmlformats.org/officeDocument/2006/extended-properties"><Application>Other Writer</Application><Pages>1</Pages></Properties>`), CtApp)
		p.RootRels = []Rel{
			{ID: "rId3", Type: RtExtended, Target: "docProps/app.xml"},
			{ID: "rId2", Type: RtCore, Target: "docProps/core.xml"},
			{ID: "rId1", Type: RtOfficeDoc, Target: "word/document.xml"},
		}
	}
	if has["ext-hyperlink"] {
		id := docRel(RtHyperlink, "https://example.org/a?b=1", true)
		body += `<w:p><w:r><w:t xml:space="preserve">[hl-before] </w:t></w:r><w:hyperlink r:id="` + id + `" w:history="1"><w:r><w:rPr><w:rStyle w:val="Hyperlink"/></w:rPr><w:t>[hl-text]</w:t></w:r></w:hyperlink><w:r><w:t xml:space="preserve"> [hl-after]</w:t></w:r></w:p>`
	}
	if has["ext-links"] {
		id := docRel(RtImage, "https://example.com/pics/../img/./logo.png?size=2&v=1", true)
		docPr++
		body += strings.Replace(DrawingPara(id, docPr, 9525*3, 9525*2), `r:embed="`, `r:link="`, 1)
		docRel(NsR+"/oleObject", "file:///C:/docs/linked%20sheet.xlsx", true)
		body += `<w:p>` + run("[extlinks-after]") + `</w:p>`
	}
	if has["abs-target"] {
		p.Defaults["png"] = "image/png"
		p.Add("word/media/absolute.png", SmallPNG(3, 2, 77))
		id := docRel(RtImage, "/word/media/absolute.png", false)
		docPr++
		body += DrawingPara(id, docPr, 9525*3, 9525*2)
	}
	if has["smartTag"] {
		body += `<w:p>` + run("[st-before]") + `<w:smartTag w:uri="urn:schemas-microsoft-com:office:smarttags" w:element="place">` + run("[st-text]") + `</w:smartTag>` + run("[st-after]") + `</w:p>`
	}
	if has["ins"] {
		body += `<w:p>` + run("[ins-before]") + `<w:ins w:id="5" w:author="A" w:date="2020-01-01T00:00:00Z">` + run("[ins-text]") + `</w:ins>` + run("[ins-after]") + `</w:p>`
	}
	if has["sdt-inline"] {
		body += `<w:p>` + run("[sdti-before]") + `<w:sdt><w:sdtPr><w:alias w:val="Name"/><w:id w:val="77"/></w:sdtPr><w:sdtContent>` + run("[sdti-text]") + `</w:sdtContent></w:sdt>` + run("[sdti-after]") + `</w:p>`
	}
	if has["sdt-block"] {
		body += `<w:sdt><w:sdtPr><w:alias w:val="Block"/><w:id w:val="78"/></w:sdtPr><w:sdtContent><w:p>` + run("[sdtb-text]") + `</w:p></w:sdtContent></w:sdt>`
	}
	if has["fldSimple"] {
		body += `<w:p>` + run("[fld-before]") + `<w:fldSimple w:instr=" AUTHOR ">` + run("[fld-text]") + `</w:fldSimple>` + run("[fld-after]") + `</w:p>`
	}
	if has["run-multi-t"] {
		body += `<w:p><w:r><w:t>[mt-1]</w:t><w:tab/><w:t>[mt-2]</w:t></w:r></w:p>`
	}
	if has["media-IMAGE5"] {
		bodyPic("IMAGE5.PNG", 51)
	}
	if has["media-Image0"] {
		bodyPic("Image0.png", 52)
	}
	if has["media-picture"] {
		bodyPic("picture.png", 53)
	}
	if has["media-image7"] {
		bodyPic("image7.png", 54)
	}
	if has["skip-nested-inline"] {
		// an application-specific element (here w:object / w:ruby / a private one) that holds, further down, an
		// element of the same name: whatever skips it must skip to the matching end tag, not to the first one
		nest := func(n string) string {
			return `<w:` + n + ` w:x="1"><w:inner><w:` + n + `><w:leaf/></w:` + n + `></w:inner><w:` + n + `/></w:` + n + `>`
		}
		body += `<w:p><w:pPr>` + nest("pPrChange") + `<w:jc w:val="center"/></w:pPr>` +
			`<w:r><w:rPr>` + nest("rPrChange") + `<w:b/></w:rPr><w:t>[ski-rpr]</w:t></w:r>` +
			`<w:r>` + nest("object") + `<w:t>[ski-run-same]</w:t></w:r>` + run("[ski-run-next]") +
			nest("customXmlMoveFromRangeStart") + run("[ski-para]") + `</w:p><w:p>` + run("[ski-after]") + `</w:p>`
	}
	if has["skip-nested-block"] {
		nest := func(n string) string {
			return `<w:` + n + ` w:x="1"><w:inner><w:` + n + `><w:leaf/></w:` + n + `></w:inner><w:` + n + `/></w:` + n + `>`
		}
		cell := func(pre, t string) string {
			return `<w:tc><w:tcPr>` + pre + `<w:tcW w:w="2000" w:type="dxa"/></w:tcPr>` + nest("altChunk") + `<w:p>` + run(t) + `</w:p></w:tc>`
		}
		body += nest("altChunk") + `<w:p>` + run("[skb-body]") + `</w:p>`
		body += `<w:tbl><w:tblPr><w:tblW w:w="4000" w:type="dxa"/></w:tblPr>` + nest("tblPrEx") + `<w:tblGrid><w:gridCol w:w="2000"/><w:gridCol w:w="2000"/></w:tblGrid>` +
			`<w:tr>` + nest("tblPrEx") + cell(nest("tcPrChange"), "[skb-c11]") + cell("", "[skb-c12]") + `</w:tr>` +
			nest("bookmarkStartX") + `<w:tr>` + cell("", "[skb-c21]") + cell("", "[skb-c22]") + `</w:tr></w:tbl>`
		// a text box holding a paragraph whose run holds another (empty) text box, then more runs
		body += `<w:p>` + run("[skb-tb-before]") + `<w:r><w:pict><w:shapeX><w:textboxX><w:txbxContent><w:p><w:r><w:pict><w:shapeX/></w:pict></w:r></w:p></w:txbxContent></w:textboxX></w:shapeX></w:pict></w:r>` + run("[skb-tb-after]") + `</w:p><w:p>` + run("[skb-after]") + `</w:p>`
	}
	if has["tbl-nogrid"] {
		cell := func(t string) string {
			return `<w:tc><w:tcPr><w:tcW w:w="0" w:type="auto"/></w:tcPr><w:p>` + run(t) + `</w:p></w:tc>`
		}
		body += `<w:tbl><w:tblPr><w:tblW w:w="0" w:type="auto"/></w:tblPr><w:tr>` + cell("[c11]") + cell("[c12]") + `</w:tr><w:tr>` + cell("[c21]") + cell("[c22]") + `</w:tr></w:tbl>`
		body += `<w:p>` + run("[after-table]") + `</w:p>`
	}
	if has["empty-part"] {
		p.Defaults["bin"] = "application/vnd.openxmlformats-officedocument.oleObject"
		p.Add("word/embeddings/oleObject1.bin", []byte{})
		docRel(NsR+"/oleObject", "embeddings/oleObject1.bin", false)
	}
	if has["big-part"] {
		p.Defaults["bin"] = "application/vnd.openxmlformats-officedocument.oleObject"
		blob := make([]byte, 200<<10)
		x := uint32(2463534242)
		for i := range blob {
			x ^= x << 13
			x ^= x >> 17
			x ^= x << 5
			blob[i] = byte(x >> 11)
		}
		p.Add("word/attachedData.bin", blob)
		docRel(NsR+"/oleObject", "attachedData.bin", false)
	}
	if has["zip-stored"] {
		p.Stored = true
	}
	if has["glossary"] {
		addPart("word/glossary/document.xml", []byte(xmlDecl+`<w:glossaryDocument xmlns:w="`+NsW+`"><w:docParts><w:docPart><w:docPartPr><w:name w:val="Block1"/></w:docPartPr><w:docPartBody><w:p><w:r><w:t>[glossary-text]</w:t></w:r></w:p></w:docPartBody></w:docPart></w:docParts></w:glossaryDocument>`), "application/vnd.openxmlformats-officedocument.wordprocessingml.document.glossary+xml")
		addPart("word/glossary/styles.xml", StylesXML(), CtStyles)
		p.OtherRels["word/glossary/_rels/document.xml.rels"] = []Rel{{ID: "rId1", Type: RtStyles, Target: "styles.xml"}}
		docRel(NsR+"/glossaryDocument", "glossary/document.xml", false)
	}
	if has["comments"] {
		addPart("word/comments.xml", []byte(xmlDecl+`<w:comments xmlns:w="`+NsW+`"><w:comment w:id="0" w:author="A" w:date="2020-01-01T00:00:00Z" w:initials="A"><w:p><w:r><w:t>[comment-text]</w:t></w:r></w:p></w:comment></w:comments>`), "application/vnd.openxmlformats-officedocument.wordprocessingml.comments+xml")
		docRel(NsR+"/comments", "comments.xml", false)
		body += `<w:p>` + run("[cm-before]") + `<w:commentRangeStart w:id="0"/>` + run("[cm-text]") + `<w:commentRangeEnd w:id="0"/><w:r><w:commentReference w:id="0"/></w:r>` + run("[cm-after]") + `</w:p>`
	}
	if has["media-override"] {
		p.Add("word/media/image3.png", SmallPNG(3, 2, 55))
		p.Overrides["/word/media/image3.png"] = "image/png"
		id := docRel(RtImage, "media/image3.png", false)
		docPr++
		body += DrawingPara(id, docPr, 9525*3, 9525*2)
	}
	if has["stylesWithEffects"] {
		addPart("word/stylesWithEffects.xml", StylesXML(), "application/vnd.ms-word.stylesWithEffects+xml")
		id := ids.next()
		p.DocRels = append([]Rel{{ID: id, Type: "http://schemas.microsoft.com/office/2007/relationships/stylesWithEffects", Target: "stylesWithEffects.xml"}}, p.DocRels...)
	}
	if has["shared-hdr-id"] {
		addPart("word/header7.xml", HeaderXML("[hdr-shared]"), CtHeader)
		id := docRel(RtHeader, "header7.xml", false)
		if !has["hdr-default"] {
			sectRefs += `<w:headerReference w:type="default" r:id="` + id + `"/>`
		}
		sectRefs += `<w:headerReference w:type="even" r:id="` + id + `"/>`
	}
	sect := `<w:sectPr>` + sectRefs + `<w:pgSz w:w="11906" w:h="16838"/><w:pgMar w:top="1440" w:right="1800" w:bottom="1440" w:left="1800" w:header="851" w:footer="992" w:gutter="0"/>` + titlePg + `</w:sectPr>`
	if has["sectpr-in-para"] {
		body += `<w:p><w:pPr>` + sect + `</w:pPr>` + run("[sect-last]") + `</w:p>`
	} else {
		body += sect
	}
	style := "w"
	if has["ns-default"] {
		style = ""
	} else if has["ns-x"] {
		style = "x"
	}
	p.Add(p.DocName, MainXML(style, body))
	return p.Bytes()
}
