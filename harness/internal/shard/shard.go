// Package shard runs an enumeration in N worker subprocesses (re-executions of
// this binary), with a journal so that a case that kills or hangs its worker is
// attributed to that case, recorded, skipped, and the worker restarted from its
// last checkpoint.
package shard

import (
	"bufio"
	"encoding/json"
	"fmt"
	"io"
	"os"
	"os/exec"
	"runtime"
	"runtime/debug"
	"strconv"
	"strings"
	"sync"
	"time"

	"verif/harness/internal/rep"
)

// Ctx is handed to a worker function.
type Ctx struct {
	Shard, N int
	Args     json.RawMessage
	P        *rep.Partial
	Tier     string

	start    int64
	only     int64
	skip     map[int64]bool
	lastCkpt time.Time
	out      string
	jw       *bufio.Writer
	describe int64
	descOut  interface{}
	deadline time.Time
	Stopped  bool
	lastBeat time.Time
}

type descSentinel struct{}

// Begin reports whether case idx belongs to this worker and still has to be
// run; it journals the start of the case.  desc may be nil.
func (c *Ctx) Begin(idx int64, desc func() interface{}) bool {
	if c.describe >= 0 {
		if idx == c.describe {
			if desc != nil {
				c.descOut = desc()
			}
			panic(descSentinel{})
		}
		return false
	}
	if c.N > 1 && int(idx%int64(c.N)) != c.Shard {
		return false
	}
	if c.only >= 0 {
		if idx != c.only {
			return false
		}
	} else if idx < c.start || c.skip[idx] {
		return false
	}
	if c.Stopped {
		return false
	}
	now := time.Now()
	if !c.deadline.IsZero() && now.After(c.deadline) {
		c.Stopped = true
		c.P.Incomplete = true
		c.P.Notes = append(c.P.Notes, fmt.Sprintf("shard %d stopped at case %d: budget deadline", c.Shard, idx))
		return false
	}
	if c.out != "" && now.Sub(c.lastCkpt) > 2*time.Second {
		c.checkpoint(idx, false)
		c.lastCkpt = now
	}
	if c.jw != nil {
		c.jw.WriteString("S ")
		c.jw.WriteString(strconv.FormatInt(idx, 10))
		c.jw.WriteByte('\n')
		c.jw.Flush()
	}
	return true
}

// Heartbeat tells the parent that the current case is still making progress (long cases).
func (c *Ctx) Heartbeat() {
	if c.jw == nil {
		return
	}
	now := time.Now()
	if now.Sub(c.lastBeat) < time.Second {
		return
	}
	c.lastBeat = now
	c.jw.WriteString("H\n")
	c.jw.Flush()
}

type ckpt struct {
	Next int64        `json:"next"`
	Done bool         `json:"done"`
	P    *rep.Partial `json:"p"`
}

func (c *Ctx) checkpoint(next int64, done bool) {
	b, err := json.Marshal(ckpt{Next: next, Done: done, P: c.P})
	if err != nil {
		fmt.Fprintf(os.Stderr, "checkpoint marshal: %v\n", err)
		os.Exit(3)
	}
	tmp := c.out + ".tmp"
	if err := os.WriteFile(tmp, b, 0o644); err != nil {
		fmt.Fprintf(os.Stderr, "checkpoint write: %v\n", err)
		os.Exit(3)
	}
	os.Rename(tmp, c.out)
}

// Func is a worker body: it enumerates all cases, numbering them, and runs the
// ones for which ctx.Begin returns true.
type Func func(c *Ctx)

var registry = map[string]Func{}

func Register(name string, f Func) { registry[name] = f }

// ChildMain runs the worker if this process is a shard child; it returns false otherwise.
func ChildMain() bool {
	name := os.Getenv("VCHECK_CHILD")
	if name == "" {
		return false
	}
	f, ok := registry[name]
	if !ok {
		fmt.Fprintf(os.Stderr, "unknown shard worker %q\n", name)
		os.Exit(3)
	}
	debug.SetMaxStack(256 << 20)
	shardI, _ := strconv.Atoi(os.Getenv("VCHECK_SHARD"))
	n, _ := strconv.Atoi(os.Getenv("VCHECK_N"))
	c := &Ctx{Shard: shardI, N: n, Args: json.RawMessage(os.Getenv("VCHECK_ARGS")), P: rep.NewPartial(), Tier: os.Getenv("VCHECK_TIER"),
		only: -1, describe: -1, skip: map[int64]bool{}, out: os.Getenv("VCHECK_OUT"), lastCkpt: time.Now()}
	if s := os.Getenv("VCHECK_ONLY"); s != "" {
		c.only, _ = strconv.ParseInt(s, 10, 64)
	}
	if s := os.Getenv("VCHECK_DEADLINE"); s != "" {
		if u, err := strconv.ParseInt(s, 10, 64); err == nil {
			c.deadline = time.Unix(u, 0)
		}
	}
	if s := os.Getenv("VCHECK_SKIP"); s != "" {
		for _, x := range strings.Split(s, ",") {
			v, _ := strconv.ParseInt(x, 10, 64)
			c.skip[v] = true
		}
	}
	if os.Getenv("VCHECK_RESUME") == "1" {
		if b, err := os.ReadFile(c.out); err == nil {
			var k ckpt
			if json.Unmarshal(b, &k) == nil && k.P != nil {
				c.P = k.P
				c.start = k.Next
			}
		}
	}
	c.jw = bufio.NewWriter(os.Stdout)
	f(c)
	c.checkpoint(1<<62, true)
	os.Exit(0)
	return true
}

// Event is a case that killed or hung its worker.
type Event struct {
	Idx       int64
	Kind      string // "crash" | "hang"
	Stderr    string
	Confirmed bool
	Desc      interface{}
}

// Opts configures Map.
type Opts struct {
	N           int
	HangTimeout time.Duration // per case
	MemLimitMB  int
	Deadline    time.Time
	Tier        string
	Env         []string
}

func selfExe() string {
	p, err := os.Executable()
	if err != nil {
		return os.Args[0]
	}
	return p
}

type tailBuf struct {
	mu  sync.Mutex
	buf []byte
}

func (t *tailBuf) Write(p []byte) (int, error) {
	t.mu.Lock()
	defer t.mu.Unlock()
	t.buf = append(t.buf, p...)
	if len(t.buf) > 16384 {
		// keep head (first 6k: the fatal error line) and tail
		head := append([]byte{}, t.buf[:6000]...)
		tail := t.buf[len(t.buf)-6000:]
		t.buf = append(append(head, []byte("\n...\n")...), tail...)
	}
	return len(p), nil
}
func (t *tailBuf) String() string { t.mu.Lock(); defer t.mu.Unlock(); return string(t.buf) }

func runChild(name string, args []byte, shardI int, o Opts, out string, extraEnv []string) (lastIdx int64, done bool, hang bool, stderr string) {
	cmd := exec.Command(selfExe())
	cmd.Env = append(os.Environ(),
		"VCHECK_CHILD="+name, "VCHECK_SHARD="+strconv.Itoa(shardI), "VCHECK_N="+strconv.Itoa(o.N),
		"VCHECK_ARGS="+string(args), "VCHECK_OUT="+out, "VCHECK_TIER="+o.Tier, "GOMAXPROCS=2")
	if !o.Deadline.IsZero() {
		cmd.Env = append(cmd.Env, "VCHECK_DEADLINE="+strconv.FormatInt(o.Deadline.Unix(), 10))
	}
	if o.MemLimitMB > 0 {
		cmd.Env = append(cmd.Env, "GOMEMLIMIT="+strconv.Itoa(o.MemLimitMB)+"MiB")
	}
	cmd.Env = append(cmd.Env, o.Env...)
	cmd.Env = append(cmd.Env, extraEnv...)
	tb := &tailBuf{}
	cmd.Stderr = tb
	pipe, err := cmd.StdoutPipe()
	if err != nil {
		return -1, false, false, err.Error()
	}
	if err := cmd.Start(); err != nil {
		return -1, false, false, err.Error()
	}
	lastIdx = -1
	var mu sync.Mutex
	lastT := time.Now()
	finished := make(chan struct{})
	go func() {
		sc := bufio.NewScanner(pipe)
		sc.Buffer(make([]byte, 1<<16), 1<<20)
		for sc.Scan() {
			l := sc.Text()
			if strings.HasPrefix(l, "S ") {
				v, _ := strconv.ParseInt(l[2:], 10, 64)
				mu.Lock()
				lastIdx = v
				lastT = time.Now()
				mu.Unlock()
			}
		}
		io.Copy(io.Discard, pipe)
		close(finished)
	}()
	hangTO := o.HangTimeout
	if hangTO == 0 {
		hangTO = 120 * time.Second
	}
	tick := time.NewTicker(500 * time.Millisecond)
	defer tick.Stop()
loop:
	for {
		select {
		case <-finished:
			break loop
		case <-tick.C:
			mu.Lock()
			idle := time.Since(lastT)
			mu.Unlock()
			if idle > hangTO {
				hang = true
				cmd.Process.Kill()
				<-finished
				break loop
			}
		}
	}
	werr := cmd.Wait()
	mu.Lock()
	li := lastIdx
	mu.Unlock()
	if hang {
		return li, false, true, tb.String()
	}
	if werr == nil {
		return li, true, false, tb.String()
	}
	return li, false, false, tb.String() + "\n" + werr.Error()
}

// Map runs worker `name` in o.N subprocesses and merges their partial results.
func Map(name string, args interface{}, o Opts) (*rep.Partial, []Event) {
	if o.N <= 0 {
		o.N = runtime.NumCPU()
	}
	ab, _ := json.Marshal(args)
	total := rep.NewPartial()
	var events []Event
	var mu sync.Mutex
	var wg sync.WaitGroup
	dir, err := os.MkdirTemp("", "vcheck-shard-")
	if err != nil {
		total.HarnessErrs = append(total.HarnessErrs, err.Error())
		return total, nil
	}
	defer os.RemoveAll(dir)
	for i := 0; i < o.N; i++ {
		wg.Add(1)
		go func(i int) {
			defer wg.Done()
			out := fmt.Sprintf("%s/out-%d.json", dir, i)
			var skip []string
			resume := false
			for attempt := 0; ; attempt++ {
				env := []string{}
				if resume {
					env = append(env, "VCHECK_RESUME=1")
				}
				if len(skip) > 0 {
					env = append(env, "VCHECK_SKIP="+strings.Join(skip, ","))
				}
				last, done, hang, stderr := runChild(name, ab, i, o, out, env)
				if done {
					break
				}
				if last < 0 || attempt > 200 {
					mu.Lock()
					total.HarnessErrs = append(total.HarnessErrs, fmt.Sprintf("worker %s shard %d failed outside a case (attempt %d): %s", name, i, attempt, tailStr(stderr)))
					mu.Unlock()
					return
				}
				ev := Event{Idx: last, Kind: "crash", Stderr: tailStr(stderr)}
				if hang {
					ev.Kind = "hang"
				}
				// confirm by running the case alone
				oo := o
				_, d2, h2, s2 := runChild(name, ab, i, oo, out+".confirm", []string{"VCHECK_ONLY=" + strconv.FormatInt(last, 10)})
				if !d2 {
					ev.Confirmed = true
					if h2 != hang {
						ev.Stderr += "\n(confirm run: " + map[bool]string{true: "hang", false: "crash"}[h2] + ")"
					}
					if !h2 && s2 != "" {
						ev.Stderr = tailStr(s2)
					}
				}
				os.Remove(out + ".confirm")
				ev.Desc = Describe(name, ab, last, o.Tier)
				mu.Lock()
				events = append(events, ev)
				mu.Unlock()
				skip = append(skip, strconv.FormatInt(last, 10))
				resume = true
			}
			b, err := os.ReadFile(out)
			var k ckpt
			if err == nil {
				err = json.Unmarshal(b, &k)
			}
			mu.Lock()
			if err != nil || k.P == nil {
				total.HarnessErrs = append(total.HarnessErrs, fmt.Sprintf("worker %s shard %d: no result: %v", name, i, err))
			} else {
				total.Merge(k.P)
			}
			mu.Unlock()
		}(i)
	}
	wg.Wait()
	return total, events
}

func tailStr(s string) string {
	if len(s) > 3000 {
		return s[:1500] + "\n...\n" + s[len(s)-1500:]
	}
	return s
}

// Describe re-enumerates in this process until case idx and returns its description.
func Describe(name string, args []byte, idx int64, tier string) (out interface{}) {
	f := registry[name]
	if f == nil {
		return nil
	}
	c := &Ctx{N: 1, Args: args, P: rep.NewPartial(), only: -1, describe: idx, Tier: tier}
	defer func() {
		if r := recover(); r != nil {
			if _, ok := r.(descSentinel); ok {
				out = c.descOut
				return
			}
			out = fmt.Sprintf("describe failed: %v", r)
		}
	}()
	f(c)
	return nil
}

// RunInline runs a worker body in this process as the only shard (used for replay).
func RunInline(name string, args interface{}, only int64, tier string) *rep.Partial {
	ab, _ := json.Marshal(args)
	c := &Ctx{N: 1, Args: ab, P: rep.NewPartial(), only: only, describe: -1, Tier: tier, skip: map[int64]bool{}}
	registry[name](c)
	return c.P
}
