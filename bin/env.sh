export GOFLAGS=-mod=mod GOPROXY=off GOSUMDB=off GOTOOLCHAIN=local
export GOCACHE=${GOCACHE:-/root/.cache/go-build}
REPO=${VERIF_REPO:-/repo}
