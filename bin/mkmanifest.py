#!/usr/bin/env python3
"""Generates /verif/MANIFEST.json from the table below (one entry per claimed property)."""
import json, os
V = os.environ.get("VERIF_DIR", "/verif")
props = [json.loads(l) for l in open(f"{V}/properties.jsonl")]
ids = [p["id"] for p in props]

claimed = {
 "C08": dict(engine="seqx", cat="model_checking", ref="§4 C08, A.1",
   technique="explicit-state BFS over operation histories of the real Document in lock-step with a list reference model",
   text="Every history of <= d append/section/remove operations (all indices -1..n+1, live/stale/foreign/nil handles) is executed on the real Document; after every step the element list, accessors and return value are compared with a plain list model, and every distinct state is saved and its w:body child order compared. Exhaustive within depth d (quick 4, thorough 6).",
   note="Histories longer than d and element kinds outside the alphabet are not covered; state key drops text and section content (no list operation depends on them)."),
 "C09": dict(engine="seqx+foreign", cat="model_checking", ref="§4 C09, A.2",
   technique="explicit-state BFS over table-edit histories of the real Table against a rows-by-columns reference grid and structural invariants",
   text="From every initial shape (1x1..3x3 and four opened foreign tables: ragged, no grid, existing spans, nested) every history of <= d structural edits with every position/range in -1..n+1 is executed on the real Table; after each call: no panic, an error leaves the deep dump unchanged, span sums = grid, >=1 paragraph per cell, vMerge continuations under a start, untargeted cell contents where the plain grid model puts them, accessors/iterator agree, copies share nothing; distinct states are saved and the w:tbl re-read. Genuine defects on merged/ragged tables are listed by signature in known_findings.json.",
   note="Signatures are clause|operation|class-of-table-before: a new defect that only shows in a (clause, operation, class) that is already a known finding is not distinguished from it. Depth quick 2-3, thorough 3-5."),
 "C12": dict(engine="seqx", cat="model_checking", ref="§4 C12, A.3",
   technique="explicit-state BFS over page-setting histories of the real Document in lock-step with a settings record",
   text="Every history of <= d page-setting calls over 54 operations (all standard sizes, custom sizes at the range bounds and around the 1 mm recognition window, both orientations and an invalid one, margins/distances/gutter incl. negative, all doc-grid types, clear, full records, reopen) is executed; after each call GetPageSettings is compared with the record within one twip, w:pgSz with the record's physical size, and rejected calls must change nothing; distinct states are saved and re-read. Exhaustive within depth (quick 3, thorough 5).",
   note="Argument values outside the listed domains and unknown size names are not covered."),
 "C11": dict(engine="seqx", cat="model_checking", ref="§4 C11, A.4",
   technique="explicit-state BFS over header/footer call histories of the real Document against a map kind -> latest definition, judged on the saved package",
   text="Every history of <= d calls over the six header/footer calls x three kinds (distinct texts/formats/page-number flags) interleaved with page margins, title page, image, list, paragraph, reopen and render-as-template is executed; every distinct state is saved and the independent reader checks: at most one reference per kind, exactly one for each defined kind, resolving to a part with the latest call's text, formatting, alignment and PAGE field and no earlier call's text. Exhaustive within depth (quick 3, thorough 4).",
   note="Only one reopen and one render per history; unknown kinds are outside the alphabet."),
 "C02": dict(engine="seqx+foreign", cat="model_checking", ref="§4 C02",
   technique="explicit-state BFS over relationship-creating histories from fresh and opened foreign packages with all injective id assignments, relationship-graph invariant on every saved state",
   text="Seeds: a fresh document and every foreign package whose styles/image/header/numbering relationships carry every injective assignment of ids from {rId1,rId2,rId3,rId4,rId7,x1} (97 seeds quick, 1172 thorough); from each, every history of 2 operations over 17 relationship-creating calls (images in body/cell/template placeholder, headers/footers of all kinds, list, notes, settings, properties, render, reopen); every distinct state is saved and the independent reader checks id uniqueness, target presence, owner, and resolution of every r:id / r:embed to a relationship of the matching kind.",
   note="Histories of more than 2 operations after the seed and id pools beyond the six listed ids are not covered."),
 "C05": dict(engine="shard(faultx)", cat="model_checking", ref="§4 C05, §3.5",
   technique="exhaustive write-fault enumeration on the real Save path: stateless exploration of every failure offset (kernel RLIMIT_FSIZE=k for every byte k of the output) and every unwritable target kind, judged against the ToBytes serialisation through an independent ZIP/XML reader",
   text="For each document of a fixed set (one paragraph inside one buffer block; ~15 KiB mixed document with table, header, footer, list, footnote; documents with incompressible images; thorough adds a ~77 KiB three-image document, an opened foreign package with an edit, a document saved before, an empty document) and EVERY byte offset k of its output file, the real Document.Save runs with the file cut at byte k by the kernel; Save may return nil only if the file read back is a complete ZIP whose parts equal those of ToBytes taken just before. Target paths: plain, Save before any ToBytes, nested new directories, existing longer/shorter file, bare relative name (must be complete, faithful, no trailing bytes); /dev/full, a directory, below a regular file, empty name (must return an error).",
   note="Fault model is a size limit / ENOSPC at a byte offset; close-time failures of network file systems and power-loss durability are not modelled. Documents are a fixed set, not all documents."),
 "C03": dict(engine="shard+pkgmodel", cat="model_checking", ref="§4 C03, §8",
   technique="exhaustive enumeration of API-built documents (feature product, feature pairs, element sequences), each taken through three save/open cycles of the real library; consecutive saves compared as w:body trees by the independent reader",
   text="Every document of (1) 364 constructor/setter values of paragraph, run, table, row, cell, image and section state, one each; (2) all ordered pairs of paragraph/run features on one paragraph and of table/row/cell features on one 3x3 table (quick 32^2+27^2, thorough 72^2+132^2); (3) all sequences of <=3 (quick) / <=4 (thorough) elements over {plain, formatted, heading, page break, list item, image, 2x2 table, merged table, nested table, section settings} x 6 texts (edge blanks, tab, newline, non-ASCII, empty) plus all 2-element sequences with independent texts, is saved, opened and re-saved three times. word/document.xml of consecutive saves is parsed by the independent reader and the body trees compared node by node (namespace-resolved, attribute order and property-container order irrelevant, r:embed/r:id/w:numId/note ids replaced by the content they resolve to). Any element, attribute or text present before and absent/different after is reported as dropped|/changed|/added|/moved| + parent/child path. Exhaustive within these bounds (10,457 / 91,312 documents).",
   note="Only library-written documents (foreign packages are C04); sequences longer than the bound and argument values outside the listed domains are not covered. One signature per dropped path: a second defect affecting an already-known path is not distinguished from it. 14 reader drops (borders, bookmarks, SDT/TOC, math, floating-image anchor children) are known findings; 10 were repaired by fix: commits."),
 "C14": dict(engine="shard", cat="model_checking", ref="§4 C14, A.6, §8",
   technique="exhaustive enumeration of style registries (every based-on function incl. self-reference, cycles and missing parents x every per-style definer state per attribute) on the real StyleManager in worker subprocesses, judged by a reference resolver; crash/hang of a worker is the observed outcome for non-termination; reflection address walk for Clone",
   text="Every based-on function over n<=3 (quick) / 4 (thorough) styles with targets none, each style incl. itself, an unregistered id (144 / 1440 graphs) x each of the 18 formatting elements named in the property and all of them at once x every assignment {no container, container without the element, element set with a style-unique value} to the styles (99,611 / 3,126,794 registries on top of the predefined styles); every id and one unregistered id is queried through GetStyleWithInheritance (all 18 elements compared with the nearest-definer walk with visited set), ApplyStyleToXML and GetStyleInfo; queries are repeated, the missing parent is registered afterwards and removed again, and the complete registry dump must be unchanged. Queries whose walk reaches a cycle run as separate cases so that a process-killing recursion is recorded as a crash event. Clone: for a registry with every field of every nested structure set (by reflection), the predefined registry and every all-elements graph, no pointer/map address is shared, contents are equal, and mutating every leaf plus add/remove/replace on either side leaves the other's dump unchanged.",
   note="More than 4 styles, sub-attribute granularity, table properties, and registry edits other than late registration/removal of the missing parent are not covered; ApplyStyleToXML's map has no key for borders, shading, keep/page-break/grid flags, so those are judged on GetStyleWithInheritance only."),
 "C16": dict(engine="shard", cat="model_checking", ref="§4 C16, A.5, §8",
   technique="exhaustive enumeration of template trees of the documented grammar x value assignments, real TemplateEngine compared with an AST reference interpreter",
   text="Every template tree (Lit|Var|If[+else]|Each with item fields, this, @index/@first/@last, item conditionals, nested each; 6 literals incl. newline/braces/non-ASCII) with <= 3 (quick) / 4 (thorough) nodes, nesting 2/3, is crossed with every assignment of 18 value classes (plain strings, empty, int, bool, float, nil, newline, braces and 10 directive-like strings) to the value slots the template can observe, over a fixed data layout with missing/empty/nested entries; each pair is rendered by LoadTemplate+RenderToDocument (and RenderTemplateToDocument for the plain data of every template) and the paragraph texts compared with a reference interpreter evaluated on the generator's tree. A second grammar enumerates base templates with 1-2 blocks x children overriding every subset (block content from 6/8 fragments incl. image placeholder, each, if-else). Exhaustive within the bounds (quick 88,902 pairs, thorough 2.48 M). Re-scanning of substituted values is a known finding (20 value|... signatures).",
   note="Whitespace-only line = empty line (paragraph splitter treated as output encoding). Scope choices the documentation leaves open are unobservable by construction (disjoint names, item conditions boolean/absent, no If in If, this only for scalars). A structural failure is shrunk to a minimal template, so a second defect in the same templates can be masked until the first is fixed. Value signatures are slot-kind x value-class."),
 "C20": dict(engine="shard", cat="model_checking", ref="§4 C20, §8",
   technique="exhaustive small-scope enumeration of documents x export options through the real exporter and the real converter (export, re-import, re-export), judged by token order, exactly-once text, marker structure and byte fixpoint",
   text="All documents of <=3 (quick) / <=4 (thorough) elements over the exporter vocabulary (15 element kinds: headings 1-3, paragraphs, list item, quote, code paragraph, 2x2 tables, empty paragraph) x 48 export option combinations (GFM tables, setext, 3 bullet markers, 2 emphasis markers, wrap); all 16^n run-format combinations for n<=2/3 runs; 8 metacharacter texts x 9 containers x 4 contexts (thorough: all ordered pairs of metacharacter texts); judged by unique-token order, exactly-once text, nesting of marker strings, token-located block comparison of convert(md1), and md2 = md1 byte for byte (202,560 / 2,666,096 documents).",
   note="40 signatures are known findings (lists/simple tables not re-importable, formatting flattened on import, naive marker wrapping of adjacent/combined formats, no escaping of metacharacters, outer whitespace); 5 signatures were repaired by fix: commits. Escaping style is free; empty paragraphs are not counted in the block sequence."),
}

not_yet = {}

checks = []
for i in ids:
    if i in claimed:
        c = claimed[i]
        checks.append({
            "property_id": i,
            "quick_cmd": f"bin/check {i} quick",
            "thorough_cmd": f"bin/check {i} thorough",
            "evidence_file": f"/verif/evidence/{i}.json",
            "replay_cmd_template": f"bin/check {i} quick --replay {{path}}",
            "engine": c["engine"],
            "level_claimed": {"category": c["cat"], "text": c["text"], "design_ref": c["ref"]},
            "level_note": c["note"],
            "technique": c["technique"],
        })
na = [{"property_id": i, "reason": not_yet.get(i, "check not built yet in this round; planned engine and bounds are in DESIGN.md section 4")} for i in ids if i not in claimed]
m = {
 "version": 1,
 "setup_cmd": "bin/build",
 "hooks": {
   "guard": "verif",
   "enable": "go build -tags verif -overlay /verif/build/overlay.json (overlay generated by harness/cmd/mkoverlay from /verif/hooks; nothing is committed to /repo)",
   "baseline_off_cmd": "cd /repo && GOFLAGS=-mod=mod GOPROXY=off GOSUMDB=off GOTOOLCHAIN=local go test -json -vet=off -count=1 -timeout 25m ./...",
   "source_commits": [],
   "add_only": True,
 },
 "engines": [
   {"name": "seqx", "path": "harness/internal/seqx", "serves_properties": [], "kind_free_text": "explicit-state BFS over operation histories of the real API (replay + one op in worker subprocesses, global dedup on canonical state key, lock-step reference model)"},
   {"name": "shard", "path": "harness/internal/shard", "serves_properties": [], "kind_free_text": "exhaustive input-shape enumeration sharded over worker subprocesses with crash/hang journal"},
   {"name": "shard(faultx)", "path": "harness/cmd/vcheck/c05.go", "serves_properties": [], "kind_free_text": "write-fault injector: RLIMIT_FSIZE=k with SIGXFSZ ignored around the real Save call in a worker subprocess, every k enumerated; unwritable target paths"},
   {"name": "pkgmodel", "path": "harness/internal/pkgmodel", "serves_properties": [], "kind_free_text": "independent OOXML package reader (zip, strict namespace-aware XML, OPC content types/relationships, element tree)"},
 ],
 "checks": checks,
 "not_applicable": na,
 "notes": "All checks: bin/check <id> <tier> regenerates the overlay from the current /repo tree, rebuilds vcheck with -tags verif and runs it. known_findings.json lists known findings by signature and fixed defects.",
}
for e in m["engines"]:
    e["serves_properties"] = [c["property_id"] for c in checks if e["name"] in c["engine"]]
json.dump(m, open(f"{V}/MANIFEST.json", "w"), indent=1)
print("claimed", len(checks), "not claimed", len(na))
