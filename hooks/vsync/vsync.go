//go:build verif

// Package vsync is added to the module through the build overlay only (build tag
// verif).  It mirrors the few names of package sync the library uses and reports
// every synchronisation operation, and every instrumented source location, to a
// hook before performing it.  With no hook installed it is a plain pass-through.
package vsync

import (
	"sync"
	"unsafe"
)

// Hook is called before every operation: kind is "point", "lock", "unlock",
// "rlock" or "runlock"; obj identifies the mutex; site names the source location.
// It is set once, before any goroutine that uses the library starts.
var Hook func(kind string, obj uintptr, site string)

// Point marks an instrumented source location.
func Point(site string) {
	if h := Hook; h != nil {
		h("point", 0, site)
	}
}

type RWMutex struct{ mu sync.RWMutex }

func (m *RWMutex) id() uintptr { return uintptr(unsafe.Pointer(m)) }
func (m *RWMutex) Lock() {
	if h := Hook; h != nil {
		h("lock", m.id(), "")
	}
	m.mu.Lock()
}
func (m *RWMutex) Unlock() {
	if h := Hook; h != nil {
		h("unlock", m.id(), "")
	}
	m.mu.Unlock()
}
func (m *RWMutex) RLock() {
	if h := Hook; h != nil {
		h("rlock", m.id(), "")
	}
	m.mu.RLock()
}
func (m *RWMutex) RUnlock() {
	if h := Hook; h != nil {
		h("runlock", m.id(), "")
	}
	m.mu.RUnlock()
}

type Mutex struct{ mu sync.Mutex }

func (m *Mutex) id() uintptr { return uintptr(unsafe.Pointer(m)) }
func (m *Mutex) Lock() {
	if h := Hook; h != nil {
		h("lock", m.id(), "")
	}
	m.mu.Lock()
}
func (m *Mutex) Unlock() {
	if h := Hook; h != nil {
		h("unlock", m.id(), "")
	}
	m.mu.Unlock()
}

// Pass-through names.
type (
	Once      = sync.Once
	WaitGroup = sync.WaitGroup
	Pool      = sync.Pool
	Map       = sync.Map
	Locker    = sync.Locker
)
