//go:build verif

// Verification hooks (added through `go build -overlay`, never part of a normal build).
// Read-only views of unexported state for state keys, and a reset of the
// process-wide registries so that single-document baselines are reproducible
// inside one process.  No verdict is computed from these values.
package document

import (
	"fmt"
	"sort"
	"strings"
)

// VerifResetGlobals is kept for the checks that call it before every execution.  The note and
// numbering registries it used to reset are per document since the fix of that defect, so there
// is nothing left to reset; a registry that becomes process-wide again is therefore NOT hidden
// from the checks by this hook.
func VerifResetGlobals() {}

// VerifGlobalsDump is a canonical dump of the process-wide registries (none at present).
func VerifGlobalsDump() string { return "" }

// VerifNotesDump is a canonical dump of this document's note and numbering registries (state keys only).
func (d *Document) VerifNotesDump() string {
	var b strings.Builder
	if m := d.footnoteManager; m != nil {
		fmt.Fprintf(&b, "fn next=%d/%d", m.nextFootnoteID, m.nextEndnoteID)
		var ks []string
		for k := range m.footnotes {
			ks = append(ks, "f"+k)
		}
		for k := range m.endnotes {
			ks = append(ks, "e"+k)
		}
		sort.Strings(ks)
		b.WriteString(strings.Join(ks, ","))
	}
	if m := d.numberingManager; m != nil {
		fmt.Fprintf(&b, " num next=%d/%d", m.nextAbstractNumID, m.nextNumID)
		var ks []string
		for k := range m.abstractNums {
			ks = append(ks, "a"+k)
		}
		for k := range m.numInstances {
			ks = append(ks, "n"+k)
		}
		sort.Strings(ks)
		b.WriteString(strings.Join(ks, ","))
	}
	return b.String()
}

// VerifRelDump is a canonical dump of the relationship lists, content types and image counter.
func (d *Document) VerifRelDump() string {
	var b strings.Builder
	if d.relationships != nil {
		for _, r := range d.relationships.Relationships {
			fmt.Fprintf(&b, "P %s %s %s;", r.ID, r.Type, r.Target)
		}
	}
	if d.documentRelationships != nil {
		for _, r := range d.documentRelationships.Relationships {
			fmt.Fprintf(&b, "D %s %s %s;", r.ID, r.Type, r.Target)
		}
	}
	if d.contentTypes != nil {
		for _, r := range d.contentTypes.Defaults {
			fmt.Fprintf(&b, "CD %s %s;", r.Extension, r.ContentType)
		}
		for _, r := range d.contentTypes.Overrides {
			fmt.Fprintf(&b, "CO %s %s;", r.PartName, r.ContentType)
		}
	}
	fmt.Fprintf(&b, "img=%d", d.nextImageID)
	return b.String()
}

// VerifPartNames lists the names of the stored parts.
func (d *Document) VerifPartNames() []string {
	var ks []string
	for k := range d.parts {
		ks = append(ks, k)
	}
	sort.Strings(ks)
	return ks
}
