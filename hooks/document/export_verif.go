//go:build verif

// Verification hooks (added through `go build -overlay`, never part of a normal build).
// Read-only views of unexported state for state keys, and a reset of the
// process-wide registries so that single-document baselines are reproducible
// inside one process.  No verdict is computed from these values.
package document

import (
	"fmt"
	"reflect"
	"sort"
	"strings"
)

// VerifResetGlobals is kept for the checks that call it before every execution.  The note and
// numbering registries it used to reset are per document since the fix of that defect, so there
// is nothing left to reset; a registry that becomes process-wide again is therefore NOT hidden
// from the checks by this hook.
func VerifResetGlobals() {}

// VerifGlobalsDump is a canonical dump of the process-wide registries (none at present).
func VerifGlobalsDump() string { return "" }

// VerifNotesDump is a canonical dump of this document's note and numbering registries (state keys only).
func (d *Document) VerifNotesDump() string {
	var b strings.Builder
	if m := d.footnoteManager; m != nil {
		fmt.Fprintf(&b, "fn next=%d/%d", m.nextFootnoteID, m.nextEndnoteID)
		var ks []string
		for k := range m.footnotes {
			ks = append(ks, "f"+k)
		}
		for k := range m.endnotes {
			ks = append(ks, "e"+k)
		}
		sort.Strings(ks)
		b.WriteString(strings.Join(ks, ","))
	}
	if m := d.numberingManager; m != nil {
		fmt.Fprintf(&b, " num next=%d/%d", m.nextAbstractNumID, m.nextNumID)
		var ks []string
		for k := range m.abstractNums {
			ks = append(ks, "a"+k)
		}
		for k := range m.numInstances {
			ks = append(ks, "n"+k)
		}
		sort.Strings(ks)
		b.WriteString(strings.Join(ks, ","))
	}
	return b.String()
}

// VerifRelDump is a canonical dump of the relationship lists, content types and image counter.
func (d *Document) VerifRelDump() string {
	var b strings.Builder
	if d.relationships != nil {
		for _, r := range d.relationships.Relationships {
			fmt.Fprintf(&b, "P %s %s %s;", r.ID, r.Type, r.Target)
		}
	}
	if d.documentRelationships != nil {
		for _, r := range d.documentRelationships.Relationships {
			fmt.Fprintf(&b, "D %s %s %s;", r.ID, r.Type, r.Target)
		}
	}
	if d.contentTypes != nil {
		for _, r := range d.contentTypes.Defaults {
			fmt.Fprintf(&b, "CD %s %s;", r.Extension, r.ContentType)
		}
		for _, r := range d.contentTypes.Overrides {
			fmt.Fprintf(&b, "CO %s %s;", r.PartName, r.ContentType)
		}
	}
	fmt.Fprintf(&b, "img=%d", d.nextImageID)
	return b.String()
}

// VerifPartNames lists the names of the stored parts.
func (d *Document) VerifPartNames() []string {
	var ks []string
	for k := range d.parts {
		ks = append(ks, k)
	}
	sort.Strings(ks)
	return ks
}

// VerifShallowState is a reflective, shallow fingerprint of every field of the Document struct (and,
// one level down, of the structs its unexported pointers lead to): integers and booleans by value;
// strings, slices and maps by length; pointers and interfaces by nil-ness.  It is computed by
// reflection at run time, so a field added to the Document (a cache, a counter, a remembered
// pointer) becomes part of the state keys of the explicit-state searches without any change here:
// two histories whose hidden state differs are not merged.  Used for state keys only.
func (d *Document) VerifShallowState() string {
	var b strings.Builder
	shallowFields(&b, reflect.ValueOf(d).Elem(), 1)
	return b.String()
}

// VerifShallowOf is the same fingerprint for any other object of the package (a *Table, a *TemplateEngine,
// a *Template ...): a memo, counter or cached pointer added to one of them becomes part of the state key of the
// search that works on it.  Locks are left out (their words are not state of the abstraction).
func VerifShallowOf(x interface{}) string {
	v := reflect.ValueOf(x)
	for v.Kind() == reflect.Ptr || v.Kind() == reflect.Interface {
		if v.IsNil() {
			return "nil"
		}
		v = v.Elem()
	}
	if v.Kind() != reflect.Struct {
		return v.Kind().String()
	}
	var b strings.Builder
	shallowFields(&b, v, 1)
	return b.String()
}

func shallowFields(b *strings.Builder, v reflect.Value, depth int) {
	t := v.Type()
	for i := 0; i < v.NumField(); i++ {
		f := v.Field(i)
		name := t.Field(i).Name
		if name == "Body" {
			continue // the body is the searches' explicit state
		}
		if strings.Contains(f.Type().String(), "Mutex") {
			continue
		}
		switch f.Kind() {
		case reflect.Bool:
			fmt.Fprintf(b, "%s=%v;", name, f.Bool())
		case reflect.Int, reflect.Int8, reflect.Int16, reflect.Int32, reflect.Int64:
			fmt.Fprintf(b, "%s=%d;", name, f.Int())
		case reflect.Uint, reflect.Uint8, reflect.Uint16, reflect.Uint32, reflect.Uint64:
			fmt.Fprintf(b, "%s=%d;", name, f.Uint())
		case reflect.String, reflect.Slice, reflect.Map:
			fmt.Fprintf(b, "%s#%d;", name, f.Len())
		case reflect.Ptr:
			if f.IsNil() {
				fmt.Fprintf(b, "%s=nil;", name)
			} else if depth > 0 && f.Elem().Kind() == reflect.Struct && t.Field(i).PkgPath != "" {
				fmt.Fprintf(b, "%s{", name)
				shallowFields(b, f.Elem(), depth-1)
				b.WriteString("};")
			} else {
				fmt.Fprintf(b, "%s=set;", name)
			}
		case reflect.Interface:
			fmt.Fprintf(b, "%s=%v;", name, !f.IsNil())
		case reflect.Struct:
			if depth > 0 {
				fmt.Fprintf(b, "%s{", name)
				shallowFields(b, f, depth-1)
				b.WriteString("};")
			}
		}
	}
}
