//go:build verif

package document

import (
	"crypto/sha256"
	"fmt"
	"sort"
	"strings"
)

// VerifMediaDump is a canonical dump (name:hash) of the stored parts under word/media/.
// Read-only; used for state keys of C10, never for a verdict.
func (d *Document) VerifMediaDump() string {
	var ks []string
	for k := range d.parts {
		if strings.HasPrefix(strings.ToLower(k), "word/media/") {
			ks = append(ks, k)
		}
	}
	sort.Strings(ks)
	var b strings.Builder
	for _, k := range ks {
		h := sha256.Sum256(d.parts[k])
		fmt.Fprintf(&b, "%s:%x;", k, h[:6])
	}
	return b.String()
}
